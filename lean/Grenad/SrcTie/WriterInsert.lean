/-
  Grenad.SrcTie.WriterInsert — part 3: `Writer::insert` is the model's `W.insert`.
-/
import Grenad.SrcTie.WriterCut

set_option linter.unusedSimpArgs false
set_option linter.unusedVariables false

namespace Grenad.SrcTie
open Grenad Grenad.R Grenad.Gen

/-- the translated `Writer` against the model's `W` (ghost fields `items`, `log` aside) -/
structure RW (g : Gen.Writer) (w : W) : Prop where
  bw : mBW g.block_writer w.bw
  idx : mIdx g.index_block_writers w.idx
  out : g.writer = w.out
  count : g.entries_count = w.count
  bs : g.block_size = w.cfg.clamped

/-- bounds under which one `insert` cannot overflow -/
structure SmallW (g : Gen.Writer) : Prop where
  bw : Small (2 ^ 61) (2 ^ 30) g.block_writer
  idx : ∀ t, t < g.index_block_writers.length → Small (2 ^ 61) (2 ^ 30) g.index_block_writers[t]!
  count : g.entries_count + 1 < 2 ^ 64
  levels : 0 < g.index_block_writers.length

/-- `Writer::insert` with its level loop named -/
theorem insert_eq (C : CompressFn) (g : Gen.Writer) (k v : Bytes) :
    Gen.Writer.insert C g k v = (do
      let mut self_ := g
      let m_2 ← Grenad.Gen.BlockWriter.insert self_.block_writer k v
      self_ := { self_ with block_writer := m_2 }
      self_ := { self_ with entries_count := (← add 64 self_.entries_count 1) }
      if (decide (self_.block_size ≤ (← Grenad.Gen.BlockWriter.current_size_estimate self_.block_writer))) then
        match (← Grenad.Gen.BlockWriter.last_key_fn self_.block_writer) with
        | Option.some last_key =>
          if decide (0 < self_.index_block_writers.length) then
            let offset : Nat := self_.writer.length
            let m_4 ← Grenad.Gen.BlockWriter.insert (self_.index_block_writers[self_.index_block_writers.length - 1]!) last_key (beBytes 8 offset)
            self_ := { self_ with index_block_writers := (self_.index_block_writers.set (self_.index_block_writers.length - 1) m_4) }
            let (m_6, m_7) ← Grenad.Gen.compress_and_write_block C self_.writer self_.block_writer self_.compression_type self_.compression_level
            self_ := { self_ with writer := m_6 }
            self_ := { self_ with block_writer := m_7 }
          let _ ← sliceFrom self_.index_block_writers 1
          self_ ← forIn (List.range' 1 (self_.index_block_writers.length - 1)).reverse self_ (cutStep C)
        | _ =>
          pure ()
      return self_) := rfl

/-- **`Writer::insert` is the model's `W.insert`**: same new writer state (block writer, every index level,
    bytes handed to the sink, entry count) when the model accepts the entry, a panic when it traps. -/
theorem src_writer_insert (cd : Codec) (hcd : ∀ b : Bytes, b.length < 2 ^ 63 → (cd.compress b).length < 2 ^ 64) (g : Gen.Writer) (w : W)
    (k v : Bytes) (hr : RW g w) (hs : SmallW g) :
    match W.insert cd w k v with
    | .ok w' => ∃ g', Gen.Writer.insert (codecFn cd) g k v = .ok g' ∧ RW g' w' ∧
        g'.compression_type = g.compression_type ∧ g'.compression_level = g.compression_level ∧
        w'.cfg = w.cfg
    | .error _ => ∃ msg, Gen.Writer.insert (codecFn cd) g k v = .error (.panic msg) := by
  rw [insert_eq]
  unfold W.insert
  have hins := bw_insert_sim g.block_writer w.bw k v hr.bw hs.bw
  cases hb : w.bw.insert k v with
  | error t =>
    rw [hb] at hins
    obtain ⟨msg, hmsg⟩ := hins
    exact ⟨msg, by simp only [bind, Except.bind, hmsg]⟩
  | ok bw1 =>
    rw [hb] at hins
    obtain ⟨x1, hx1, hx2, hx3⟩ := hins
    have hcnt : add 64 g.entries_count 1 = .ok (g.entries_count + 1) := by
      simp [add, hs.count, pure, Except.pure]
    simp only [bind, Except.bind, hx1, hcnt, bw_size_sim _ bw1 hx2 hx3, bw_last_key_sim _ bw1 hx2, pure, Except.pure]
    rw [← hr.bs]
    by_cases hsz : bw1.sizeEstimate ≥ g.block_size
    · have hsz' : g.block_size ≤ bw1.sizeEstimate := hsz
      simp only [hsz, hsz', decide_true, if_true]
      cases hlk : bw1.lastKey with
      | none =>
        simp only []
        exact ⟨_, rfl, ⟨hx2, hr.idx, hr.out, by simp [hr.count], hr.bs⟩, by simp⟩
      | some lk =>
        simp only []
        have hlev := hs.levels
        have hlen : g.index_block_writers.length = w.idx.length := hr.idx.1
        have hn1 : w.idx.length - 1 < w.idx.length := by omega
        obtain ⟨lastIdx, hl1, hl2⟩ := hr.idx.get hn1
        simp only [hlev, decide_true, if_true, hl1]
        rw [hlen]
        rw [← hr.out]
        have hpi := bw_insert_sim _ lastIdx lk (be64 g.writer.length) hl2 (by rw [← hlen]; exact hs.idx _ (by omega))
        cases hp : lastIdx.insert lk (be64 g.writer.length) with
        | error t =>
          rw [hp] at hpi
          obtain ⟨msg, hmsg⟩ := hpi
          exact ⟨msg, by simp only [beBytes8_eq, hmsg]⟩
        | ok lastIdx' =>
          rw [hp] at hpi
          obtain ⟨y, hy1, hy2, hy3⟩ := hpi
          obtain ⟨z, hz1, hz2, hz3⟩ := bw_emit_sim cd hcd g.writer x1 bw1 g.compression_type g.compression_level hx2 hx3
          simp only [beBytes8_eq, hy1, hz1]
          -- the state entering the level loop
          obtain ⟨g3, hg3⟩ : ∃ g3 : Gen.Writer, g3 = ({ block_writer := z, index_block_writers := g.index_block_writers.set (w.idx.length - 1) y, compression_type := g.compression_type, compression_level := g.compression_level, block_size := g.block_size, entries_count := g.entries_count + 1, writer := g.writer ++ W.blockBytes cd bw1.finish } : Gen.Writer) := ⟨_, rfl⟩
          have hi3 : g3.index_block_writers = g.index_block_writers.set (w.idx.length - 1) y := by rw [hg3]
          have hm3 : mIdx g3.index_block_writers (w.idx.set (w.idx.length - 1) lastIdx') := by rw [hi3]; exact hr.idx.set _ hy2
          have hsl : sliceFrom (g.index_block_writers.set (w.idx.length - 1) y) 1 = .ok ((g.index_block_writers.set (w.idx.length - 1) y).drop 1) := by
            have h1l : 1 ≤ (g.index_block_writers.set (w.idx.length - 1) y).length := by rw [List.length_set]; omega
            simp only [sliceFrom, h1l, if_true, pure, Except.pure]
          simp only [hsl]
          have hs03 : ∀ t, t < w.idx.length - 1 → Small (2 ^ 61) (2 ^ 30) g3.index_block_writers[t]! := by
            intro t ht
            rw [hi3, get!_set_ne _ _ _ _ (by omega)]
            exact hs.idx t (by omega)
          have hs13 : Small (2 ^ 62) (2 ^ 31) g3.index_block_writers[w.idx.length - 1]! := by
            rw [hi3, get!_set_eq _ _ _ (by omega)]
            exact hy3
          have hloop := cut_loop cd hcd (w.idx.length - 1) g3 (w.idx.set (w.idx.length - 1) lastIdx')
            (w.log ++ [{ offset := g.writer.length, level := 0, raw := bw1.finish, items := bw1.items }])
            hm3 (by rw [List.length_set]; omega) hs03 hs13
          have hbs3 : g3.block_size = g.block_size := by rw [hg3]
          have hw3 : g3.writer = g.writer ++ W.blockBytes cd bw1.finish := by rw [hg3]
          have hl3 : (g.index_block_writers.set (w.idx.length - 1) y).length - 1 = w.idx.length - 1 := by simp [hlen]
          rw [hbs3, hw3] at hloop
          simp only [hl3]
          rw [← hg3]
          cases hcl : W.cutLevels cd g.block_size (w.idx.length - 1) (w.idx.set (w.idx.length - 1) lastIdx')
              (g.writer ++ W.blockBytes cd bw1.finish)
              (w.log ++ [{ offset := g.writer.length, level := 0, raw := bw1.finish, items := bw1.items }]) with
          | error t =>
            rw [hcl] at hloop
            obtain ⟨msg, hmsg⟩ := hloop
            exact ⟨msg, by rw [hmsg]⟩
          | ok r =>
            rw [hcl] at hloop
            obtain ⟨idx', out', log'⟩ := r
            obtain ⟨g', h1, h2, h3, h4⟩ := hloop
            obtain ⟨c1, c2, c3, c4, c5⟩ := h4
            have d1 : g3.block_writer = z := by rw [hg3]
            have d2 : g3.entries_count = g.entries_count + 1 := by rw [hg3]
            have d3 : g3.compression_type = g.compression_type := by rw [hg3]
            have d4 : g3.compression_level = g.compression_level := by rw [hg3]
            refine ⟨g', by rw [h1], ⟨?_, h2, h3, ?_, ?_⟩, by rw [c2, d3], by rw [c3, d4], rfl⟩
            · rw [c1, d1]; exact hz2
            · rw [c5, d2]; show g.entries_count + 1 = w.count + 1; rw [hr.count]
            · rw [c4, hbs3]; exact hr.bs
    · have hsz' : ¬ g.block_size ≤ bw1.sizeEstimate := hsz
      simp only [hsz, hsz', decide_false, if_false, Bool.false_eq_true]
      exact ⟨_, rfl, ⟨hx2, hr.idx, hr.out, by simp [hr.count], hr.bs⟩, by simp⟩

end Grenad.SrcTie
