/-
  Grenad.SrcTie.ReaderTotalIdx — total correctness of the regenerated reader on written files, part 2:
  the index level.  Every `IndexBlockCursor::move_on_*` of the regenerated code RETURNS on a state satisfying
  `RTIdx` (all cursors held are over writer-built index blocks of the right depth of the tree), re-establishes
  `RTIdx`, and the entry it returns carries an 8-byte offset of a stored data block.
-/
import Grenad.SrcTie.ReaderTotalBase

set_option linter.unusedSimpArgs false
set_option linter.unusedVariables false

namespace Grenad.SrcTie
open Grenad Grenad.R Grenad.Gen Grenad.Assembly Grenad.TCursor

/-- root-first list of index levels: the entries of the last one satisfy `RTG s k` -/
def RTT (iv : Nat) (log : List Emitted) (s : Store) (k : Nat) : List (Nat × Gen.BlockCursor) → Prop
  | [] => True
  | (_, c) :: rest => RTCur iv log (RTG s (rest.length + k)) c ∧ RTT iv log s k rest

theorem rtt_append {iv : Nat} {log : List Emitted} {s : Store} {k : Nat} :
    ∀ (a b : List (Nat × Gen.BlockCursor)),
      RTT iv log s k (a ++ b) ↔ RTT iv log s (k + b.length) a ∧ RTT iv log s k b
  | [], b => by simp [RTT]
  | (o, c) :: a, b => by
    simp only [List.cons_append, RTT, rtt_append a b, List.length_append, and_assoc]
    rw [show a.length + b.length + k = a.length + (k + b.length) by omega]

theorem rtt_concat {iv : Nat} {log : List Emitted} {s : Store} {k : Nat} (a : List (Nat × Gen.BlockCursor))
    (o : Nat) (c : Gen.BlockCursor) :
    RTT iv log s k (a ++ [(o, c)]) ↔ RTT iv log s (k + 1) a ∧ RTCur iv log (RTG s k) c := by
  rw [rtt_append]
  simp [RTT]

theorem rtt_getLast {iv : Nat} {log : List Emitted} {s : Store} {k : Nat} :
    ∀ (l : List (Nat × Gen.BlockCursor)) (o : Nat) (c : Gen.BlockCursor), RTT iv log s k l →
      l.getLast? = some (o, c) → RTCur iv log (RTG s k) c := by
  intro l o c h hl
  rcases List.eq_nil_or_concat l with hnil | ⟨init, last, hcat⟩
  · subst hnil; cases hl
  · rw [List.concat_eq_append] at hcat
    subst hcat
    simp only [List.getLast?_append, List.getLast?_singleton, Option.some_or, Option.some.injEq] at hl
    subst hl
    exact ((rtt_concat init o c).1 h).2

/-- converse of `genLoad_bind_ok`: running the emitted load sequence and then `F` -/
theorem rt_genLoad_bind {β : Type} (cd : Codec) (rd : Src) (off : Nat) (ct : CompressionType)
    (F : Gen.Block × Src → Gen.BlockCursor → M β) {P : Gen.BlockCursor × Src → Prop} {Q : β → Prop}
    (hl : RTOk (genLoad cd rd off ct) P) (hF : ∀ x c, P (c, x.snd) → RTOk (F x c) Q) :
    RTOk (Except.bind (liftIo (rd.seekStart off).fst) fun _ =>
            Except.bind (Gen.Block.new (fun _ => cd.decompress) (rd.seekStart off).snd ct) fun x =>
              Except.bind x.fst.into_cursor fun c => F x c) Q := by
  obtain ⟨⟨c, rd'⟩, hgen, hP⟩ := hl
  unfold genLoad at hgen
  obtain ⟨u, hu, hgen⟩ := bind_ok hgen
  obtain ⟨x, hx, hgen⟩ := bind_ok hgen
  obtain ⟨c0, hc, hgen⟩ := bind_ok hgen
  simp only [Except.pure, Except.ok.injEq, Prod.mk.injEq] at hgen
  obtain ⟨h1, h2⟩ := hgen
  subst h1 h2
  rw [hu, ok_bind, hx, ok_bind, hc, ok_bind]
  exact hF x c0 hP

section
variable {cd : Codec} {file : Bytes} {iv : Nat} {log : List Emitted} {s : Store}
variable (hs : SmallBlocks cd file) (hB : ByteSim s (loadCursor cd file) (Rb iv log)) (m : Mov)
include hs hB

/-! ### `initial_index_blocks` -/

theorem rt_init_step (sI : Gen.IndexBlockCursor) {α : Type} (a : α) (rd : Src)
    (acc : List (Nat × Gen.BlockCursor)) (jump d : Nat) (hrd : rd.bytes = file) (hp : RTPt s (d + 1) jump) :
    RTOk (initBody cd sI (genMove m) a ((none, rd, acc, jump) : InitSt)) fun y =>
      (∃ rd1, rd1.bytes = file ∧ y = .done (some (none, sI, rd1), rd1, acc, jump)) ∨
      (∃ rd1 v c', rd1.bytes = file ∧ RTCur iv log (RTG s (d + 1)) c' ∧ RTPt s d v ∧
        y = .yield (none, rd1, acc ++ [(v, c')], v)) := by
  unfold initBody
  refine rt_genLoad_bind cd rd jump sI.compression_type _ (rt_load hs hB hp rd hrd _) ?_
  rintro x c ⟨hc, hx⟩
  refine rtok_bind (rt_move hc m) ?_
  rintro ⟨r, c'⟩ ⟨hc', hr⟩
  cases r with
  | none => exact rtok_pure (Or.inl ⟨x.snd, hx, rfl⟩)
  | some e =>
    obtain ⟨k, ob⟩ := e
    obtain ⟨h8, hpt⟩ := hr _ rfl
    simp only [rt_beValueN8 k ob h8, ok_bind]
    exact rtok_pure (Or.inr ⟨x.snd, _, c', hx, hc', hpt, rfl⟩)

theorem rt_init_loop (sI : Gen.IndexBlockCursor) {α : Type} : ∀ (l : List α) (rd : Src)
    (acc : List (Nat × Gen.BlockCursor)) (jump : Nat), rd.bytes = file → RTPt s l.length jump →
    RTOk (forIn l ((none, rd, acc, jump) : InitSt) (initBody cd sI (genMove m))) fun st' =>
      st'.2.1.bytes = file ∧
        (st'.1 = some (none, sI, st'.2.1) ∨
          (st'.1 = none ∧ ∃ suf, st'.2.2.1 = acc ++ suf ∧ suf.length = l.length ∧ RTT iv log s 1 suf)) := by
  intro l
  induction l with
  | nil =>
    intro rd acc jump hrd _
    exact rtok_pure ⟨hrd, Or.inr ⟨rfl, [], by simp, rfl, trivial⟩⟩
  | cons a l ih =>
    intro rd acc jump hrd hp
    rw [List.forIn_cons]
    refine rtok_bind (rt_init_step hs hB m sI a rd acc jump l.length hrd hp) ?_
    rintro y (⟨rd1, h1, rfl⟩ | ⟨rd1, v, c', h1, hc', hv, rfl⟩)
    · exact rtok_pure ⟨h1, Or.inl rfl⟩
    · refine rtok_mono (ih rd1 (acc ++ [(v, c')]) v h1 hv) ?_
      rintro st' ⟨hb, hst | ⟨hst, suf, h2, h3, h4⟩⟩
      · exact ⟨hb, Or.inl hst⟩
      · refine ⟨hb, Or.inr ⟨hst, (v, c') :: suf, by rw [h2]; simp, by simp [h3], ?_, h4⟩⟩
        rw [h3]; exact hc'

theorem rt_initial_index_blocks (sI : Gen.IndexBlockCursor) (hlv : sI.index_levels ≤ 255)
    (hroot : RTPt s (sI.index_levels + 1) sI.base_block_offset) (rd : Src) (hrd : rd.bytes = file) :
    RTOk (Gen.IndexBlockCursor.initial_index_blocks (fun _ => cd.decompress) sI rd (genMove m)) fun x =>
      x.2.1 = sI ∧ x.2.2.bytes = file ∧
        ∀ l, x.1 = some l → l.length = sI.index_levels + 1 ∧ RTT iv log s 1 l := by
  unfold Gen.IndexBlockCursor.initial_index_blocks
  simp only [bind, pure]
  have hadd : add 64 sI.index_levels 1 = .ok (sI.index_levels + 1) := by
    unfold add
    have : sI.index_levels + 1 < 2 ^ 64 := by omega
    simp only [this, if_true, pure, Except.pure]
  rw [hadd, ok_bind]
  have hloop := rt_init_loop hs hB m sI (List.range' 0 (sI.index_levels + 1 - 0)) rd [] sI.base_block_offset hrd
    (by simpa using hroot)
  refine rtok_bind hloop ?_
  rintro ⟨o, rd', inner, j⟩ ⟨hb, hst | ⟨hst, suf, h2, h3, h4⟩⟩
  · simp only at hst hb
    subst hst
    exact rtok_pure ⟨rfl, hb, fun l hl => by cases hl⟩
  · simp only at hst hb h2
    subst hst
    refine rtok_pure ⟨rfl, hb, ?_⟩
    intro l hl
    simp only [Option.some.injEq] at hl
    subst hl
    simp only [List.nil_append] at h2
    subst h2
    exact ⟨by simpa using h3, h4⟩

/-! ### `iter_index_blocks` -/

/-- one iteration of the emitted loop of `iter_index_blocks` returns -/
def RTIterStep (file : Bytes) (iv : Nat) (log : List Emitted) (s : Store)
    (F : Nat → IterSt → M (ForInStep IterSt)) : Prop :=
  ∀ (pre : List (Nat × Gen.BlockCursor)) (x : Nat × Gen.BlockCursor) (rest : List (Nat × Gen.BlockCursor))
    (sI : Gen.IndexBlockCursor) (rd : Src) (jump : Nat),
    sI.inner = some (pre ++ x :: rest) → rd.bytes = file → RTCur iv log (RTG s (rest.length + 1)) x.2 →
    RTPt s (rest.length + 1) jump →
    RTOk (F pre.length (none, sI, rd, jump)) fun y =>
      ∃ (off : Nat) (c' : Gen.BlockCursor) (rd1 : Src), rd1.bytes = file ∧
        RTCur iv log (RTG s (rest.length + 1)) c' ∧
        (y = .done (some (none, { sI with inner := some (pre ++ (off, c') :: rest) }, rd1),
                    { sI with inner := some (pre ++ (off, c') :: rest) }, rd1, jump) ∨
          ∃ v, RTPt s rest.length v ∧
            y = .yield (none, { sI with inner := some (pre ++ (off, c') :: rest) }, rd1, v))

omit hs hB in
theorem rt_iter_loop (F : Nat → IterSt → M (ForInStep IterSt)) (hF : RTIterStep file iv log s F) :
    ∀ (suf pre : List (Nat × Gen.BlockCursor)) (sI : Gen.IndexBlockCursor) (rd : Src) (jump : Nat),
    sI.inner = some (pre ++ suf) → RTT iv log s 1 suf → rd.bytes = file → RTPt s suf.length jump →
    RTOk (forIn (List.range' pre.length suf.length) ((none, sI, rd, jump) : IterSt) F) fun st' =>
      ∃ suf', suf'.length = suf.length ∧ RTT iv log s 1 suf' ∧
        st'.2.1 = { sI with inner := some (pre ++ suf') } ∧ st'.2.2.1.bytes = file ∧
        (st'.1 = none ∨ st'.1 = some (none, st'.2.1, st'.2.2.1)) := by
  intro suf
  induction suf with
  | nil =>
    intro pre sI rd jump hinner _ hrd _
    simp only [List.length_nil, List.range'_zero, List.forIn_nil]
    refine rtok_pure ⟨[], rfl, trivial, ?_, hrd, Or.inl rfl⟩
    cases sI; simp only at hinner; simp [hinner]
  | cons x rest ih =>
    intro pre sI rd jump hinner hT hrd hp
    rw [List.length_cons, List.range'_succ, List.forIn_cons]
    obtain ⟨xo, xc⟩ := x
    refine rtok_bind (hF pre (xo, xc) rest sI rd jump hinner hrd hT.1 hp) ?_
    rintro y ⟨off, c', rd1, h1, hc', (rfl | ⟨v, hv, rfl⟩)⟩
    · exact rtok_pure ⟨(off, c') :: rest, rfl, ⟨hc', hT.2⟩, rfl, h1, Or.inr rfl⟩
    · have hlen : pre.length + 1 = (pre ++ [(off, c')]).length := by simp
      simp only []
      rw [hlen]
      have hinner2 : ({ sI with inner := some (pre ++ (off, c') :: rest) } : Gen.IndexBlockCursor).inner
          = some ((pre ++ [(off, c')]) ++ rest) := by simp
      refine rtok_mono (ih (pre ++ [(off, c')]) _ rd1 v hinner2 hT.2 h1 hv) ?_
      rintro st' ⟨suf', g1, g2, g3, g4, g5⟩
      refine ⟨(off, c') :: suf', by simp [g1], ⟨by rw [g1]; exact hc', g2⟩, ?_, g4, g5⟩
      rw [g3]; simp

/-- the invariant of the translated `IndexBlockCursor` over the tree rooted at `root` with `levels + 1` index levels -/
def RTIdx (iv : Nat) (log : List Emitted) (s : Store) (root levels : Nat) (sI : Gen.IndexBlockCursor) : Prop :=
  sI.base_block_offset = root ∧ sI.index_levels = levels ∧
    ∀ l, sI.inner = some l → l.length = levels + 1 ∧ RTT iv log s 1 l

/-- what every index move establishes -/
def RTIdxPost (file : Bytes) (iv : Nat) (log : List Emitted) (s : Store) (root levels : Nat)
    (x : Option (Bytes × Bytes) × Gen.IndexBlockCursor × Src) : Prop :=
  x.2.2.bytes = file ∧ RTIdx iv log s root levels x.2.1 ∧ ∀ e, x.1 = some e → RTG s 1 e

variable {root levels : Nat} (hlv : levels ≤ 255) (hroot : RTPt s (levels + 1) root)
include hlv hroot

omit hs hB hlv hroot in
/-- the final `match self.inner.as_ref().and_then(|inner| inner.last())` -/
theorem rt_last_current (sI : Gen.IndexBlockCursor) (rd : Src) (hrd : rd.bytes = file)
    (hI : RTIdx iv log s root levels sI) :
    RTOk (match sI.inner.bind (fun inner => inner.getLast?) with
          | some (_, cursor) => Except.bind (Gen.BlockCursor.current cursor) fun v => Except.pure (v, sI, rd)
          | none => Except.pure (none, sI, rd)) (RTIdxPost file iv log s root levels) := by
  cases hin : sI.inner with
  | none => exact rtok_pure ⟨hrd, hI, fun e he => by cases he⟩
  | some l =>
    simp only [Option.bind_some]
    cases hlast : l.getLast? with
    | none => exact rtok_pure ⟨hrd, hI, fun e he => by cases he⟩
    | some p =>
      obtain ⟨o, c⟩ := p
      simp only
      refine rtok_bind (rt_current (rtt_getLast l o c (hI.2.2 l hin).2 hlast)) ?_
      intro v hv
      exact rtok_pure ⟨hrd, hI, hv⟩

theorem rt_iter_index_blocks (sI : Gen.IndexBlockCursor) (hI : RTIdx iv log s root levels sI) (rd : Src)
    (hrd : rd.bytes = file) :
    RTOk (Gen.IndexBlockCursor.iter_index_blocks (fun _ => cd.decompress) sI rd (genMove m))
      (RTIdxPost file iv log s root levels) := by
  obtain ⟨hbase, hlev, hinn⟩ := hI
  unfold Gen.IndexBlockCursor.iter_index_blocks
  simp only [bind, pure]
  cases hinner : sI.inner with
  | some inner =>
    simp only [Option.getD_some]
    obtain ⟨hlen, hT⟩ := hinn inner hinner
    refine rtok_bind (rt_iter_loop _ ?hF inner [] sI rd sI.base_block_offset hinner hT hrd
      (by rw [hlen, hbase]; exact hroot)) ?_
    case hF =>
      intro pre x rest sI' rd' jump hinner' hrd' hcx hp
      obtain ⟨xo, xc⟩ := x
      simp only [hinner', Option.getD_some, getElem!_append_cons, set_append_cons]
      by_cases hj : jump = xo
      · subst hj
        simp only [bne_self_eq_false, Bool.false_eq_true, if_false]
        refine rtok_bind (rt_move hcx m) ?_
        rintro ⟨r, c'⟩ ⟨hc', hr⟩
        cases r with
        | none => exact rtok_pure ⟨jump, c', rd', hrd', hc', Or.inl rfl⟩
        | some e =>
          obtain ⟨k, ob⟩ := e
          obtain ⟨h8, hpt⟩ := hr _ rfl
          simp only [rt_beValueN8 k ob h8, ok_bind]
          exact rtok_pure ⟨jump, c', rd', hrd', hc', Or.inr ⟨_, hpt, rfl⟩⟩
      · have hne : (jump != xo) = true := by simp [hj]
        simp only [hne, if_true]
        refine rt_genLoad_bind cd rd' jump sI'.compression_type _ (rt_load hs hB hp rd' hrd' _) ?_
        rintro x0 c ⟨hc, hx0⟩
        refine rtok_bind (rt_move hc m) ?_
        rintro ⟨r, c'⟩ ⟨hc', hr⟩
        cases r with
        | none => exact rtok_pure ⟨jump, c', x0.snd, hx0, hc', Or.inl rfl⟩
        | some e =>
          obtain ⟨k, ob⟩ := e
          obtain ⟨h8, hpt⟩ := hr _ rfl
          simp only [rt_beValueN8 k ob h8, ok_bind]
          exact rtok_pure ⟨jump, c', x0.snd, hx0, hc', Or.inr ⟨_, hpt, rfl⟩⟩
    rintro ⟨o, sI1, rd1, j⟩ ⟨suf', g1, g2, g3, g4, g5⟩
    simp only [List.nil_append] at g3 g4 g5
    have hI1 : RTIdx iv log s root levels sI1 := by
      rw [g3]
      refine ⟨hbase, hlev, ?_⟩
      intro l hl
      simp only [Option.some.injEq] at hl
      subst hl
      exact ⟨by rw [g1, hlen], g2⟩
    rcases g5 with g5 | g5
    · subst g5
      exact rt_last_current sI1 rd1 g4 hI1
    · subst g5
      exact rtok_pure ⟨g4, hI1, fun e he => by cases he⟩
  | none =>
    simp only []
    refine rtok_bind (rt_initial_index_blocks hs hB m sI (by rw [hlev]; exact hlv)
      (by rw [hlev, hbase]; exact hroot) rd hrd) ?_
    rintro ⟨ri, si, rdi⟩ ⟨h1, h2, h3⟩
    simp only at h1 h2 h3
    subst h1
    have hI1 : RTIdx iv log s root levels { si with inner := ri } := by
      refine ⟨hbase, hlev, ?_⟩
      intro l hl
      obtain ⟨a, b⟩ := h3 l hl
      exact ⟨by rw [a, hlev], b⟩
    exact rt_last_current _ rdi h2 hI1

/-! ### `recursive_index_block` -/

omit hlv hroot in
theorem rt_recursive_go : ∀ (fuel : Nat) (blocks : List (Nat × Gen.BlockCursor)) (rd : Src)
    (ct : CompressionType) (k : Nat), blocks.length < fuel → RTT iv log s (k + 1) blocks → rd.bytes = file →
    RTOk (Gen.IndexBlockCursor.recursive_index_block.recursive.go (fun _ => cd.decompress) rd ct blocks
      (genMove m) fuel) fun x =>
      x.2.1.bytes = file ∧ x.2.2.length = blocks.length ∧ RTT iv log s (k + 1) x.2.2 ∧
        ∀ e, x.1 = some e → RTG s (k + 1) e := by
  intro fuel
  induction fuel with
  | zero => intro blocks rd ct k hlt; omega
  | succ fuel ih =>
    intro blocks rd ct k hlt hT hrd
    rw [Gen.IndexBlockCursor.recursive_index_block.recursive.go]
    simp only [bind, pure]
    rcases List.eq_nil_or_concat blocks with hnil | ⟨init, last, hcat⟩
    · subst hnil
      have hn : ¬ (0 < ([] : List (Nat × Gen.BlockCursor)).length) := by simp
      rw [if_neg hn]
      exact rtok_pure ⟨hrd, rfl, hT, fun e he => by cases he⟩
    · rw [List.concat_eq_append] at hcat
      subst hcat
      obtain ⟨lo, lc⟩ := last
      have hpos : 0 < (init ++ [(lo, lc)]).length := by simp
      have hj : (init ++ [(lo, lc)]).length - 1 = init.length := by simp
      obtain ⟨hTi, hlc⟩ := (rtt_concat init lo lc).1 hT
      simp only [hpos, if_true, hj, getElem!_append_cons, set_append_cons, take_append_cons,
        drop_append_cons]
      refine rtok_bind (rt_move hlc m) ?_
      rintro ⟨r2, a3⟩ ⟨ha3, hr2⟩
      cases r2 with
      | some e =>
        obtain ⟨k', ob⟩ := e
        simp only
        refine rtok_bind (rt_current ha3) ?_
        intro v hv
        exact rtok_pure ⟨hrd, by simp, (rtt_concat init lo a3).2 ⟨hTi, ha3⟩, hv⟩
      | none =>
        simp only
        have hlt' : init.length < fuel := by simp at hlt; omega
        refine rtok_bind (ih init rd ct (k + 1) hlt' hTi hrd) ?_
        rintro ⟨r4, rd1, m6⟩ ⟨h1, hlen, hT6, hr4⟩
        simp only at h1 hlen hT6 hr4
        cases r4 with
        | none =>
          exact rtok_pure ⟨h1, by simp [hlen], (rtt_concat m6 lo a3).2 ⟨hT6, ha3⟩, fun e he => by cases he⟩
        | some e =>
          obtain ⟨k', ob⟩ := e
          obtain ⟨h8, hpt⟩ := hr4 _ rfl
          simp only [rt_beValueN8 k' ob h8, ok_bind]
          refine rt_genLoad_bind cd rd1 _ ct _ (rt_load hs hB hpt rd1 h1 _) ?_
          rintro x0 c ⟨hc, hx0⟩
          have hl' := hlen.symm
          simp only [getElem!_append_cons' m6 init.length hl', set_append_cons' m6 init.length hl']
          refine rtok_bind (rt_move hc m) ?_
          rintro ⟨r11, a12⟩ ⟨ha12, hr11⟩
          exact rtok_pure ⟨hx0, by simp [hlen], (rtt_concat m6 _ a12).2 ⟨hT6, ha12⟩, hr11⟩

theorem rt_recursive_index_block (sI : Gen.IndexBlockCursor) (hI : RTIdx iv log s root levels sI) (rd : Src)
    (hrd : rd.bytes = file) :
    RTOk (Gen.IndexBlockCursor.recursive_index_block (fun _ => cd.decompress) sI rd (genMove m))
      (RTIdxPost file iv log s root levels) := by
  obtain ⟨hbase, hlev, hinn⟩ := hI
  -- the second phase, from a list of levels
  have phase2 : ∀ (sJ : Gen.IndexBlockCursor) (inner : List (Nat × Gen.BlockCursor)) (rdj : Src),
      sJ.base_block_offset = root → sJ.index_levels = levels → inner.length = levels + 1 →
      RTT iv log s 1 inner → rdj.bytes = file →
      RTOk (Except.bind (Gen.IndexBlockCursor.recursive_index_block.recursive (fun _ => cd.decompress) rdj
          sJ.compression_type inner (genMove m)) fun x =>
            Except.pure (x.1, { sJ with inner := some x.2.2 }, x.2.1)) (RTIdxPost file iv log s root levels) := by
    intro sJ inner rdj hb hl hlen hT hrdj
    unfold Gen.IndexBlockCursor.recursive_index_block.recursive
    refine rtok_bind (rt_recursive_go hs hB m _ inner rdj sJ.compression_type 0 (by omega) hT hrdj) ?_
    rintro ⟨r4, rd5, m6⟩ ⟨g1, g2, g3, g4⟩
    refine rtok_pure ⟨g1, ⟨hb, hl, ?_⟩, g4⟩
    intro l hl'
    simp only [Option.some.injEq] at hl'
    subst hl'
    exact ⟨by simp only at g2; rw [g2, hlen], g3⟩
  unfold Gen.IndexBlockCursor.recursive_index_block
  simp only [bind, pure]
  cases hinner : sI.inner with
  | some inner =>
    simp only [Option.isNone_some, Bool.false_eq_true, if_false, Option.getD_some, hinner]
    obtain ⟨hlen, hT⟩ := hinn inner hinner
    exact phase2 sI inner rd hbase hlev hlen hT hrd
  | none =>
    simp only [Option.isNone_none, if_true]
    refine rtok_bind (rt_initial_index_blocks hs hB m sI (by rw [hlev]; exact hlv)
      (by rw [hlev, hbase]; exact hroot) rd hrd) ?_
    rintro ⟨ri, si, rdi⟩ ⟨h1, h2, h3⟩
    simp only at h1 h2 h3
    subst h1
    cases ri with
    | none =>
      refine rtok_pure ⟨h2, ⟨hbase, hlev, ?_⟩, fun e he => by cases he⟩
      intro l hl; cases hl
    | some inner =>
      simp only [Option.getD_some]
      obtain ⟨a, b⟩ := h3 inner rfl
      exact phase2 _ inner rdi hbase hlev (by rw [a, hlev]) b h2

/-! ### the five public moves of `IndexBlockCursor` -/

theorem rt_index_move_on_first (sI : Gen.IndexBlockCursor) (hI : RTIdx iv log s root levels sI) (rd : Src)
    (hrd : rd.bytes = file) :
    RTOk (Gen.IndexBlockCursor.move_on_first (fun _ => cd.decompress) sI rd)
      (RTIdxPost file iv log s root levels) := by
  unfold Gen.IndexBlockCursor.move_on_first
  simp only [bind, pure]
  rw [rt_genMove_first]
  refine rtok_bind (rt_iter_index_blocks hs hB .first hlv hroot sI hI rd hrd) ?_
  rintro ⟨r, s', rd'⟩ h
  exact rtok_pure h

theorem rt_index_move_on_last (sI : Gen.IndexBlockCursor) (hI : RTIdx iv log s root levels sI) (rd : Src)
    (hrd : rd.bytes = file) :
    RTOk (Gen.IndexBlockCursor.move_on_last (fun _ => cd.decompress) sI rd)
      (RTIdxPost file iv log s root levels) := by
  unfold Gen.IndexBlockCursor.move_on_last
  simp only [bind, pure]
  rw [rt_genMove_last]
  refine rtok_bind (rt_iter_index_blocks hs hB .last hlv hroot sI hI rd hrd) ?_
  rintro ⟨r, s', rd'⟩ h
  exact rtok_pure h

theorem rt_index_move_on_ge (sI : Gen.IndexBlockCursor) (hI : RTIdx iv log s root levels sI) (key : Bytes)
    (rd : Src) (hrd : rd.bytes = file) :
    RTOk (Gen.IndexBlockCursor.move_on_key_greater_than_or_equal_to (fun _ => cd.decompress) sI key rd)
      (RTIdxPost file iv log s root levels) := by
  unfold Gen.IndexBlockCursor.move_on_key_greater_than_or_equal_to
  simp only [bind, pure]
  rw [rt_genMove_ge]
  refine rtok_bind (rt_iter_index_blocks hs hB (.ge key) hlv hroot sI hI rd hrd) ?_
  rintro ⟨r, s', rd'⟩ h
  exact rtok_pure h

theorem rt_index_move_on_next (sI : Gen.IndexBlockCursor) (hI : RTIdx iv log s root levels sI) (rd : Src)
    (hrd : rd.bytes = file) :
    RTOk (Gen.IndexBlockCursor.move_on_next (fun _ => cd.decompress) sI rd)
      (RTIdxPost file iv log s root levels) := by
  unfold Gen.IndexBlockCursor.move_on_next
  simp only [bind, pure]
  rw [rt_genMove_next]
  refine rtok_bind (rt_recursive_index_block hs hB .next hlv hroot sI hI rd hrd) ?_
  rintro ⟨r, s', rd'⟩ h
  exact rtok_pure h

theorem rt_index_move_on_prev (sI : Gen.IndexBlockCursor) (hI : RTIdx iv log s root levels sI) (rd : Src)
    (hrd : rd.bytes = file) :
    RTOk (Gen.IndexBlockCursor.move_on_prev (fun _ => cd.decompress) sI rd)
      (RTIdxPost file iv log s root levels) := by
  unfold Gen.IndexBlockCursor.move_on_prev
  simp only [bind, pure]
  rw [rt_genMove_prev]
  refine rtok_bind (rt_recursive_index_block hs hB .prev hlv hroot sI hI rd hrd) ?_
  rintro ⟨r, s', rd'⟩ h
  exact rtok_pure h

end

end Grenad.SrcTie

section Audit
open Grenad.SrcTie
#print axioms rt_index_move_on_first
#print axioms rt_index_move_on_last
#print axioms rt_index_move_on_ge
#print axioms rt_index_move_on_next
#print axioms rt_index_move_on_prev
end Audit
