/-
  Grenad.SrcTie.ReaderE2EGen — reader side, end to end, part B: on the code regenerated from
  src/reader/reader_cursor.rs (+ block.rs, block_cursor.rs, metadata.rs) on every run.

  Composition of
    * the translator tie of `ReaderCursor` (`src_rc_step`, `src_rc_history`, ReaderCursorTieStep.lean): whenever the
      generated calls return `.ok`, their results are those of `RC.step srcOps (loadCursor cd file) true`;
    * the tie of the index level, instantiated (`e2e_idxTie_src`, ReaderE2EIdx.lean) — hypothesis `SmallBlocks cd file`;
    * part A (`srcReader_main`, ReaderE2E.lean): on a file the writer produced, that model reader simulates the
      specification cursor over the inserted entries (and coincides with the `byteOps` reader of Props/C01.lean);
    * the tie of `Metadata::read_from` (`src_read_from`, Meta.lean) for opening.

  Shape of every statement: a `Setting cd cfg es file log` (the writer's hypotheses and a successful run producing
  `file`), `SmallBlocks cd file`, a generated cursor `s0` over `file` that abstracts to the freshly opened model
  cursor (`GoodRC`, `toRCfull s0 [] = RC.new m` — what `Reader::new` + `into_cursor` give, `e2e_open_cursor`), a list
  of public calls run through the generated functions (`genRcRun`); IF every call returns `.ok`, THEN every result
  agrees (`Spec.Agree`) with the specification cursor over `es`.
  Partial correctness: that the generated calls do return is not part of the translator tie (it is shown by evaluation
  on a concrete written file at the end of this file).
-/
import Grenad.SrcTie.ReaderE2E
import Grenad.SrcTie.ReaderE2EIdx
import Grenad.SrcTie.ReaderCursorTieStep

set_option linter.unusedSimpArgs false
set_option linter.unusedVariables false

namespace Grenad.SrcTie
open Grenad Grenad.R Grenad.Gen Grenad.Assembly Grenad.IterP

/-! ### the specification column of a history -/

/-- The results the specification cursor determines along a history (`none` = left open). -/
def e2eSpecRun (es : List Entry) : Spec.Pos → List Op → List Spec.SRes
  | _, [] => []
  | p, op :: ops => (Spec.step es p op).2 :: e2eSpecRun es (Spec.step es p op).1 ops

/-- It is the specification column of `runBothG` (Props/C01.lean, `C01_bytes_history`). -/
theorem e2e_runBothG_snd {γ : Type} (step' : γ → Op → γ × Res) (es : List Entry) :
    ∀ (ops : List Op) (c : γ) (p : Spec.Pos), (runBothG step' es c p ops).map (·.2) = e2eSpecRun es p ops
  | [], _, _ => rfl
  | op :: ops, c, p => by
    simp only [runBothG, e2eSpecRun, List.map_cons, e2e_runBothG_snd step' es ops]

theorem e2e_specRun_length (es : List Entry) : ∀ (ops : List Op) (p : Spec.Pos), (e2eSpecRun es p ops).length = ops.length
  | [], _ => rfl
  | op :: ops, p => by simp only [e2eSpecRun, List.length_cons, e2e_specRun_length es ops]

/-- `RC.run` of a repeated operation is `scan`. -/
theorem e2e_run_replicate_eq_scan {β : Type} (ops : BlockOps β) (load : Nat → Option β) (fx : Bool) (op : Op) :
    ∀ (n : Nat) (c : RC β), (RC.run ops load fx c (List.replicate n op)).2 = scan (RC.step ops load fx) op n c
  | 0, _ => rfl
  | n + 1, c => by
    simp only [List.replicate_succ, RC.run, scan, e2e_run_replicate_eq_scan ops load fx op n]

theorem e2e_map_ok_injective : ∀ (a b : List (Option Entry)), a.map Res.ok = b.map Res.ok → a = b
  | [], [], _ => rfl
  | x :: a, y :: b, h => by
    simp only [List.map_cons, List.cons.injEq, Res.ok.injEq] at h
    rw [h.1, e2e_map_ok_injective a b h.2]
  | [], _ :: _, h => by simp at h
  | _ :: _, [], h => by simp at h

/-! ### the generated cursor against any relation the model reader simulates the specification on -/

/-- The generated cursor `s` (over `file`) is at specification position `p`: it is good, and its abstraction is
    `R`-related to `p` (for some load log — the log is instrumentation of the model only). -/
def E2EGenAt (file : Bytes) (R : RC Grenad.BlockCursor → Spec.Pos → Prop) (s : Gen.ReaderCursor) (p : Spec.Pos) :
    Prop :=
  GoodRC (fun _ => True) file s ∧ ∃ lg, R (toRCfull s lg) p

section
variable {cd : Codec} {file : Bytes} {es : List Entry} {R : RC Grenad.BlockCursor → Spec.Pos → Prop}

/-- One generated call that returns: the new cursor is at the specification's new position and the result agrees
    with the specification's. -/
theorem e2e_gen_step (hs : SmallBlocks cd file) (hsim : Sim es (srcReader cd file) R)
    {s s' : Gen.ReaderCursor} {p : Spec.Pos} (hat : E2EGenAt file R s p) (op : Op) (r : Option (Bytes × Bytes))
    (h : genRcStep cd s op = .ok (r, s')) :
    E2EGenAt file R s' (Spec.step es p op).1 ∧ Spec.Agree (.ok r) (Spec.step es p op).2 ∧
      s'.reader.metadata = s.reader.metadata := by
  obtain ⟨hg, lg, hR⟩ := hat
  obtain ⟨hg', hmd, lg', hstep⟩ :=
    src_rc_step cd file (fun _ => True) srcOps hs (loadsQ_true cd file) (e2e_idxTie_src cd file hs) (opsTie_src _)
      s s' op lg r hg h
  have h2 := hsim _ p op hR
  simp only [srcReader, hstep] at h2
  exact ⟨⟨hg', lg', h2.1⟩, h2.2, hmd⟩

/-- A history of generated calls that all return. -/
theorem e2e_gen_history (hs : SmallBlocks cd file) (hsim : Sim es (srcReader cd file) R) :
    ∀ (hist : List Op) (s s' : Gen.ReaderCursor) (p : Spec.Pos) (rs : List (Option (Bytes × Bytes))),
      E2EGenAt file R s p → genRcRun cd s hist = .ok (rs, s') →
      E2EGenAt file R s' (posAfter es p hist) ∧ rs.length = hist.length ∧
        (∀ x ∈ (rs.map Res.ok).zip (e2eSpecRun es p hist), Spec.Agree x.1 x.2) ∧
        s'.reader.metadata = s.reader.metadata
  | [], s, s', p, rs, hat, h => by
    simp only [genRcRun, Except.pure, Except.ok.injEq, Prod.mk.injEq] at h
    obtain ⟨h1, h2⟩ := h
    subst h1 h2
    exact ⟨hat, rfl, fun x hx => by simp [e2eSpecRun] at hx, rfl⟩
  | op :: rest, s, s', p, rs, hat, h => by
    simp only [genRcRun] at h
    obtain ⟨x, hx, h⟩ := bind_ok h
    obtain ⟨r1, s1⟩ := x
    obtain ⟨y, hy, h⟩ := bind_ok h
    obtain ⟨rs1, s2⟩ := y
    simp only [Except.pure, Except.ok.injEq, Prod.mk.injEq] at h
    obtain ⟨h1, h2⟩ := h
    subst h1 h2
    obtain ⟨hat1, hag1, hmd1⟩ := e2e_gen_step hs hsim hat op r1 hx
    obtain ⟨hat2, hlen, hag2, hmd2⟩ := e2e_gen_history hs hsim rest s1 s2 _ rs1 hat1 hy
    refine ⟨hat2, by simp only [List.length_cons, hlen], ?_, hmd2.trans hmd1⟩
    intro x hx
    simp only [List.map_cons, e2eSpecRun, List.zip_cons_cons, List.mem_cons] at hx
    rcases hx with rfl | hx
    · exact hag1
    · exact hag2 x hx

end

/-! ### opening -/

/-- `Reader::new` on a source over `file`: if it returns, the model's `Meta.parse file` succeeds with the same
    metadata, and the reader holds the source. -/
theorem e2e_reader_new (file : Bytes) (pos : Nat) (rdr : Gen.Reader)
    (h : Gen.Reader.new { bytes := file, pos := pos } = .ok rdr) :
    Meta.parse file = .ok (toModelMeta rdr.metadata) ∧ rdr.reader.bytes = file := by
  unfold Gen.Reader.new at h
  simp only [bind, pure] at h
  obtain ⟨md, hmd, h⟩ := bind_ok h
  simp only [Except.pure, Except.ok.injEq] at h
  subst h
  have := src_read_from file pos
  rw [hmd] at this
  simp only [resToModel, Option.some.injEq] at this
  exact ⟨this.symm, rfl⟩

/-- Conversely, where the model's `Meta.parse` succeeds, `Reader::new` returns (with that metadata). -/
theorem e2e_reader_new_ok (file : Bytes) (pos : Nat) (m : Meta.Meta) (hm : Meta.parse file = .ok m) :
    ∃ rdr, Gen.Reader.new { bytes := file, pos := pos } = .ok rdr ∧ toModelMeta rdr.metadata = m ∧
      rdr.reader.bytes = file := by
  have := src_read_from file pos
  rw [hm] at this
  cases hr : Gen.Metadata.read_from { bytes := file, pos := pos } with
  | error f =>
    rw [hr] at this
    simp only [resToModel] at this
    cases hf : errToModel f with
    | none => rw [hf] at this; cases this
    | some e => rw [hf] at this; simp at this
  | ok md =>
    rw [hr] at this
    simp only [resToModel, Option.some.injEq, Except.ok.injEq] at this
    refine ⟨{ metadata := md, reader := { bytes := file, pos := pos } }, ?_, this, rfl⟩
    unfold Gen.Reader.new
    simp only [bind, pure, hr, Except.bind, Except.pure]

/-- `Reader::new` then `into_cursor` over a file whose trailer parses to `m` with `m.levels ≤ 255`: the cursor is
    good and abstracts to the model's freshly opened cursor. -/
theorem e2e_open_cursor (file : Bytes) (pos : Nat) (m : Meta.Meta) (hm : Meta.parse file = .ok m)
    (hlv : m.levels ≤ 255) (rdr : Gen.Reader) (s0 : Gen.ReaderCursor)
    (hopen : Gen.Reader.new { bytes := file, pos := pos } = .ok rdr)
    (hcur : Gen.Reader.into_cursor rdr = .ok s0) :
    GoodRC (fun _ => True) file s0 ∧ toRCfull s0 [] = RC.new m ∧ toModelMeta s0.reader.metadata = m := by
  obtain ⟨hparse, hbytes⟩ := e2e_reader_new file pos rdr hopen
  rw [hm] at hparse
  simp only [Except.ok.injEq] at hparse
  have hnew : Gen.ReaderCursor.new rdr = .ok s0 := by
    unfold Gen.Reader.into_cursor at hcur
    exact hcur
  obtain ⟨hrc, hreader, _, _, _, _, _, hgood⟩ := src_rc_new rdr s0 hnew
  have hl : rdr.metadata.index_levels ≤ 255 := by
    have : m.levels = rdr.metadata.index_levels := by rw [hparse]; rfl
    omega
  refine ⟨hgood _ file hbytes hl, ?_, ?_⟩
  · rw [hrc, ← hparse]
  · rw [hreader, ← hparse]

/-! ### the property theorems on the regenerated code -/

section
variable {cd : Codec} {cfg : WCfg} {es : List Entry} {file : Bytes} {log : List Emitted} {m : Meta.Meta}

/-- The trailer of a written file carries `index_levels ≤ 255`. -/
theorem e2e_setting_levels_le (S : Setting cd cfg es file log) (hm : Meta.parse file = .ok m) : m.levels ≤ 255 := by
  obtain ⟨⟨-, -, -, h4⟩, -⟩ := S.main hm
  rw [h4]
  exact S.H.levels

/-- **C01/C03 on the regenerated reader cursor, every history.**  On a file the writer produced, from a generated
    cursor that abstracts to the freshly opened cursor: for every finite list of public cursor calls run through the
    generated functions, if every call returns `.ok`, then there are as many results as calls and every result
    agrees with the specification cursor over the inserted entries `es` wherever the latter determines the result —
    the results depend only on the content and on the logical position, not on the path of calls that led there,
    nor on the block/index layout (`cfg`) or the codec. -/
theorem src_C03_history (S : Setting cd cfg es file log) (hm : Meta.parse file = .ok m)
    (hs : SmallBlocks cd file) (s0 : Gen.ReaderCursor) (hg : GoodRC (fun _ => True) file s0)
    (h0 : toRCfull s0 [] = RC.new m) (hist : List Op) (rs : List (Option (Bytes × Bytes)))
    (s' : Gen.ReaderCursor) (h : genRcRun cd s0 hist = .ok (rs, s')) :
    rs.length = hist.length ∧ ∀ x ∈ (rs.map Res.ok).zip (e2eSpecRun es .fresh hist), Spec.Agree x.1 x.2 := by
  obtain ⟨R, hsim, -, hR, -⟩ := srcReader_main S hm
  have hat : E2EGenAt file R s0 .fresh := ⟨hg, [], by rw [h0]; exact hR⟩
  obtain ⟨-, hlen, hag, -⟩ := e2e_gen_history hs hsim hist s0 s' .fresh rs hat h
  exact ⟨hlen, hag⟩

/-- The same, call by call: after any history of returning calls, one more call that returns gives the result the
    specification determines at the position `posAfter es .fresh hist` (a function of `es` and the history's
    *logical* effect only). -/
theorem src_C03_step (S : Setting cd cfg es file log) (hm : Meta.parse file = .ok m)
    (hs : SmallBlocks cd file) (s0 : Gen.ReaderCursor) (hg : GoodRC (fun _ => True) file s0)
    (h0 : toRCfull s0 [] = RC.new m) (hist : List Op) (rs : List (Option (Bytes × Bytes)))
    (s1 : Gen.ReaderCursor) (h : genRcRun cd s0 hist = .ok (rs, s1))
    (op : Op) (r : Option (Bytes × Bytes)) (s2 : Gen.ReaderCursor) (h2 : genRcStep cd s1 op = .ok (r, s2)) :
    Spec.Agree (.ok r) (Spec.step es (posAfter es .fresh hist) op).2 := by
  obtain ⟨R, hsim, -, hR, -⟩ := srcReader_main S hm
  have hat : E2EGenAt file R s0 .fresh := ⟨hg, [], by rw [h0]; exact hR⟩
  obtain ⟨hat1, -, -, -⟩ := e2e_gen_history hs hsim hist s0 s1 .fresh rs hat h
  exact (e2e_gen_step hs hsim hat1 op r h2).2.1

/-- **C03, as independence of the path.**  Two histories of returning calls that lead to the same logical position,
    followed by the same call: wherever the specification determines the result, both calls return it. -/
theorem src_C03_path_independent (S : Setting cd cfg es file log) (hm : Meta.parse file = .ok m)
    (hs : SmallBlocks cd file) (s0 : Gen.ReaderCursor) (hg : GoodRC (fun _ => True) file s0)
    (h0 : toRCfull s0 [] = RC.new m) (hist1 hist2 : List Op) (rs1 rs2 : List (Option (Bytes × Bytes)))
    (s1 s2 : Gen.ReaderCursor) (h1 : genRcRun cd s0 hist1 = .ok (rs1, s1)) (h2 : genRcRun cd s0 hist2 = .ok (rs2, s2))
    (hpos : posAfter es .fresh hist1 = posAfter es .fresh hist2)
    (op : Op) (e : Option Entry) (hdet : (Spec.step es (posAfter es .fresh hist1) op).2 = some e)
    (r1 r2 : Option (Bytes × Bytes)) (s1' s2' : Gen.ReaderCursor)
    (g1 : genRcStep cd s1 op = .ok (r1, s1')) (g2 : genRcStep cd s2 op = .ok (r2, s2')) : r1 = e ∧ r2 = e := by
  have a1 := src_C03_step S hm hs s0 hg h0 hist1 rs1 s1 h1 op r1 s1' g1
  have a2 := src_C03_step S hm hs s0 hg h0 hist2 rs2 s2 h2 op r2 s2' g2
  rw [← hpos] at a2
  rw [hdet] at a1 a2
  simp only [Spec.Agree, Res.ok.injEq] at a1 a2
  exact ⟨a1, a2⟩

/-- The results of the generated calls are those of the byte-level model reader of Props/C01.lean
    (`RC.step byteOps (loadCursor cd file) true` from `RC.new m`), and — whenever the generated run returns — that
    model run reports no error. -/
theorem src_history_eq_model (S : Setting cd cfg es file log) (hm : Meta.parse file = .ok m)
    (hs : SmallBlocks cd file) (s0 : Gen.ReaderCursor) (hg : GoodRC (fun _ => True) file s0)
    (h0 : toRCfull s0 [] = RC.new m) (hist : List Op) (rs : List (Option (Bytes × Bytes)))
    (s' : Gen.ReaderCursor) (h : genRcRun cd s0 hist = .ok (rs, s')) :
    (RC.run byteOps (loadCursor cd file) true (RC.new m) hist).2 = rs.map Res.ok ∧
      ∃ lg, toRCfull s' lg = (RC.run byteOps (loadCursor cd file) true (RC.new m) hist).1 := by
  obtain ⟨R, hsim, -, hR, heq, -⟩ := srcReader_main S hm
  obtain ⟨-, -, lg, hrun⟩ :=
    src_rc_history cd file (fun _ => True) srcOps hs (loadsQ_true cd file) (e2e_idxTie_src cd file hs) (opsTie_src _)
      hist s0 s' [] rs hg h
  rw [h0] at hrun
  have key : ∀ (hist : List Op) (c : RC Grenad.BlockCursor) (p : Spec.Pos), R c p →
      RC.run srcOps (loadCursor cd file) true c hist = RC.run byteOps (loadCursor cd file) true c hist := by
    intro hist
    induction hist with
    | nil => intro c p _; rfl
    | cons op rest ih =>
      intro c p hc
      have e : RC.step srcOps (loadCursor cd file) true c op = RC.step byteOps (loadCursor cd file) true c op :=
        heq c p hc op
      have hn := (hsim c p op hc).1
      simp only [RC.run]
      rw [← e, ih _ _ hn]
  rw [← key hist _ _ hR, hrun]
  exact ⟨rfl, lg, rfl⟩

/-! ### C02: seeks -/

/-- `move_on_key_greater_than_or_equal_to(q)`, after any history of returning calls (in particular from the fresh
    cursor, `hist = []`): if it returns, it returns the ceiling of `q`. -/
theorem src_C02_ge_after (S : Setting cd cfg es file log) (hm : Meta.parse file = .ok m)
    (hs : SmallBlocks cd file) (s0 : Gen.ReaderCursor) (hg : GoodRC (fun _ => True) file s0)
    (h0 : toRCfull s0 [] = RC.new m) (hist : List Op) (rs : List (Option (Bytes × Bytes)))
    (s1 : Gen.ReaderCursor) (h : genRcRun cd s0 hist = .ok (rs, s1))
    (q : Bytes) (r : Option (Bytes × Bytes)) (s2 : Gen.ReaderCursor)
    (h2 : Gen.ReaderCursor.move_on_key_greater_than_or_equal_to (fun _ => cd.decompress) s1 q = .ok (r, s2)) :
    r = Spec.ceiling es q := by
  have := src_C03_step S hm hs s0 hg h0 hist rs s1 h (.ge q) r s2 h2
  rw [TCursor.step_ge_res] at this
  simpa only [Spec.Agree, Res.ok.injEq] using this

/-- `move_on_key_lower_than_or_equal_to(q)`: if it returns, it returns the floor of `q`. -/
theorem src_C02_le_after (S : Setting cd cfg es file log) (hm : Meta.parse file = .ok m)
    (hs : SmallBlocks cd file) (s0 : Gen.ReaderCursor) (hg : GoodRC (fun _ => True) file s0)
    (h0 : toRCfull s0 [] = RC.new m) (hist : List Op) (rs : List (Option (Bytes × Bytes)))
    (s1 : Gen.ReaderCursor) (h : genRcRun cd s0 hist = .ok (rs, s1))
    (q : Bytes) (r : Option (Bytes × Bytes)) (s2 : Gen.ReaderCursor)
    (h2 : Gen.ReaderCursor.move_on_key_lower_than_or_equal_to (fun _ => cd.decompress) s1 q = .ok (r, s2)) :
    r = Spec.floor es q := by
  have := src_C03_step S hm hs s0 hg h0 hist rs s1 h (.le q) r s2 h2
  rw [TCursor.step_le_res S.H.asc] at this
  simpa only [Spec.Agree, Res.ok.injEq] using this

/-- `move_on_key_equal_to(q)`: if it returns, it returns the entry with key `q`, if any. -/
theorem src_C02_eq_after (S : Setting cd cfg es file log) (hm : Meta.parse file = .ok m)
    (hs : SmallBlocks cd file) (s0 : Gen.ReaderCursor) (hg : GoodRC (fun _ => True) file s0)
    (h0 : toRCfull s0 [] = RC.new m) (hist : List Op) (rs : List (Option (Bytes × Bytes)))
    (s1 : Gen.ReaderCursor) (h : genRcRun cd s0 hist = .ok (rs, s1))
    (q : Bytes) (r : Option (Bytes × Bytes)) (s2 : Gen.ReaderCursor)
    (h2 : Gen.ReaderCursor.move_on_key_equal_to (fun _ => cd.decompress) s1 q = .ok (r, s2)) :
    r = Spec.lookup es q := by
  have := src_C03_step S hm hs s0 hg h0 hist rs s1 h (.eq q) r s2 h2
  rw [TCursor.step_eq_res S.H.asc] at this
  simpa only [Spec.Agree, Res.ok.injEq] using this

/-- From the fresh cursor. -/
theorem src_C02_ge (S : Setting cd cfg es file log) (hm : Meta.parse file = .ok m)
    (hs : SmallBlocks cd file) (s0 : Gen.ReaderCursor) (hg : GoodRC (fun _ => True) file s0)
    (h0 : toRCfull s0 [] = RC.new m) (q : Bytes) (r : Option (Bytes × Bytes)) (s' : Gen.ReaderCursor)
    (h : Gen.ReaderCursor.move_on_key_greater_than_or_equal_to (fun _ => cd.decompress) s0 q = .ok (r, s')) :
    r = Spec.ceiling es q :=
  src_C02_ge_after S hm hs s0 hg h0 [] [] s0 rfl q r s' h

theorem src_C02_le (S : Setting cd cfg es file log) (hm : Meta.parse file = .ok m)
    (hs : SmallBlocks cd file) (s0 : Gen.ReaderCursor) (hg : GoodRC (fun _ => True) file s0)
    (h0 : toRCfull s0 [] = RC.new m) (q : Bytes) (r : Option (Bytes × Bytes)) (s' : Gen.ReaderCursor)
    (h : Gen.ReaderCursor.move_on_key_lower_than_or_equal_to (fun _ => cd.decompress) s0 q = .ok (r, s')) :
    r = Spec.floor es q :=
  src_C02_le_after S hm hs s0 hg h0 [] [] s0 rfl q r s' h

theorem src_C02_eq (S : Setting cd cfg es file log) (hm : Meta.parse file = .ok m)
    (hs : SmallBlocks cd file) (s0 : Gen.ReaderCursor) (hg : GoodRC (fun _ => True) file s0)
    (h0 : toRCfull s0 [] = RC.new m) (q : Bytes) (r : Option (Bytes × Bytes)) (s' : Gen.ReaderCursor)
    (h : Gen.ReaderCursor.move_on_key_equal_to (fun _ => cd.decompress) s0 q = .ok (r, s')) :
    r = Spec.lookup es q :=
  src_C02_eq_after S hm hs s0 hg h0 [] [] s0 rfl q r s' h

/-! ### C01: scans -/

/-- `move_on_next()` × `(n+1)` from the fresh cursor: if the calls return, they return exactly the inserted pairs
    in insertion order and then `None`. -/
theorem src_C01_scan_next (S : Setting cd cfg es file log) (hm : Meta.parse file = .ok m)
    (hs : SmallBlocks cd file) (s0 : Gen.ReaderCursor) (hg : GoodRC (fun _ => True) file s0)
    (h0 : toRCfull s0 [] = RC.new m) (rs : List (Option (Bytes × Bytes))) (s' : Gen.ReaderCursor)
    (h : genRcRun cd s0 (List.replicate (es.length + 1) .next) = .ok (rs, s')) :
    rs = es.map some ++ [none] := by
  obtain ⟨-, -, lg, hrun⟩ :=
    src_rc_history cd file (fun _ => True) srcOps hs (loadsQ_true cd file) (e2e_idxTie_src cd file hs) (opsTie_src _)
      _ s0 s' [] rs hg h
  rw [h0] at hrun
  have h1 := e2e_run_replicate_eq_scan srcOps (loadCursor cd file) true .next (es.length + 1) (RC.new m)
  rw [hrun] at h1
  have h1' : rs.map Res.ok = _ := h1.trans (srcReader_roundtrip S hm).1
  apply e2e_map_ok_injective
  rw [h1']
  simp only [List.map_append, List.map_map, List.map_cons, List.map_nil]
  rfl

/-- `move_on_prev()` × `(n+1)` from the fresh cursor: the inserted pairs in reverse order, then `None`. -/
theorem src_C01_scan_prev (S : Setting cd cfg es file log) (hm : Meta.parse file = .ok m)
    (hs : SmallBlocks cd file) (s0 : Gen.ReaderCursor) (hg : GoodRC (fun _ => True) file s0)
    (h0 : toRCfull s0 [] = RC.new m) (rs : List (Option (Bytes × Bytes))) (s' : Gen.ReaderCursor)
    (h : genRcRun cd s0 (List.replicate (es.length + 1) .prev) = .ok (rs, s')) :
    rs = es.reverse.map some ++ [none] := by
  obtain ⟨-, -, lg, hrun⟩ :=
    src_rc_history cd file (fun _ => True) srcOps hs (loadsQ_true cd file) (e2e_idxTie_src cd file hs) (opsTie_src _)
      _ s0 s' [] rs hg h
  rw [h0] at hrun
  have h1 := e2e_run_replicate_eq_scan srcOps (loadCursor cd file) true .prev (es.length + 1) (RC.new m)
  rw [hrun] at h1
  have h1' : rs.map Res.ok = _ := h1.trans (srcReader_roundtrip S hm).2
  apply e2e_map_ok_injective
  rw [h1']
  simp only [List.map_append, List.map_map, List.map_cons, List.map_nil]
  rfl

/-! ### from `Reader::new` -/

/-- On a written file `Reader::new` returns, with the metadata the writer recorded. -/
theorem e2e_open_ok (S : Setting cd cfg es file log) (pos : Nat) :
    ∃ rdr s0, Gen.Reader.new { bytes := file, pos := pos } = .ok rdr ∧ Gen.Reader.into_cursor rdr = .ok s0 ∧
      rdr.metadata.entries_count = es.length ∧ rdr.metadata.index_levels = cfg.levels ∧
      rdr.metadata.compression_type.toNat = cd.id ∧ rdr.metadata.file_version = .formatV2 := by
  obtain ⟨m, hm⟩ : ∃ m, Meta.parse file = .ok m := by
    obtain ⟨root, -, h⟩ := S.fileOK
    exact ⟨_, h⟩
  obtain ⟨⟨h1, h2, h3, h4⟩, -⟩ := S.main hm
  obtain ⟨rdr, hopen, hmeta, -⟩ := e2e_reader_new_ok file pos m hm
  obtain ⟨s0, hs0⟩ := src_rc_new_ok rdr
  refine ⟨rdr, s0, hopen, ?_, ?_, ?_, ?_, ?_⟩
  · unfold Gen.Reader.into_cursor
    simp only [bind, pure, hs0, Except.bind, Except.pure]
  · rw [← h3, ← hmeta]; rfl
  · rw [← h4, ← hmeta]; rfl
  · rw [← h2, ← hmeta]; rfl
  · rw [← hmeta] at h1
    simp only [toModelMeta] at h1
    cases hv : rdr.metadata.file_version with
    | formatV1 => rw [hv] at h1; simp at h1
    | formatV2 => rfl

/-- **End to end from `Reader::new`.**  `Reader::new(Cursor::new(file))`, `into_cursor()`, then any list of public
    cursor calls on the regenerated code: if they return, the results agree with the specification cursor over the
    entries that were inserted. -/
theorem src_C03_history_open (S : Setting cd cfg es file log) (hs : SmallBlocks cd file) (pos : Nat)
    (rdr : Gen.Reader) (s0 : Gen.ReaderCursor)
    (hopen : Gen.Reader.new { bytes := file, pos := pos } = .ok rdr)
    (hcur : Gen.Reader.into_cursor rdr = .ok s0)
    (hist : List Op) (rs : List (Option (Bytes × Bytes))) (s' : Gen.ReaderCursor)
    (h : genRcRun cd s0 hist = .ok (rs, s')) :
    rs.length = hist.length ∧ (∀ x ∈ (rs.map Res.ok).zip (e2eSpecRun es .fresh hist), Spec.Agree x.1 x.2) ∧
      rdr.metadata.entries_count = es.length := by
  obtain ⟨hparse, -⟩ := e2e_reader_new file pos rdr hopen
  obtain ⟨hg, h0, -⟩ := e2e_open_cursor file pos _ hparse (e2e_setting_levels_le S hparse) rdr s0 hopen hcur
  obtain ⟨⟨-, -, h3, -⟩, -⟩ := S.main hparse
  exact ⟨(src_C03_history S hparse hs s0 hg h0 hist rs s' h).1,
    (src_C03_history S hparse hs s0 hg h0 hist rs s' h).2, h3⟩

end

end Grenad.SrcTie

section Audit
open Grenad.SrcTie
#print axioms e2e_gen_step
#print axioms e2e_gen_history
#print axioms e2e_reader_new
#print axioms e2e_reader_new_ok
#print axioms e2e_open_cursor
#print axioms src_C03_history
#print axioms src_C03_step
#print axioms src_C03_path_independent
#print axioms src_history_eq_model
#print axioms src_C02_ge_after
#print axioms src_C02_le_after
#print axioms src_C02_eq_after
#print axioms src_C02_ge
#print axioms src_C02_le
#print axioms src_C02_eq
#print axioms src_C01_scan_next
#print axioms src_C01_scan_prev
#print axioms e2e_open_ok
#print axioms src_C03_history_open
end Audit
