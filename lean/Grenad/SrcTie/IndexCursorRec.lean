/-
  Grenad.SrcTie.IndexCursorRec — translator tie for `IndexBlockCursor::recursive_index_block`
  (src/reader/reader_cursor.rs) and its nested function `recursive` (translated with a fuel argument):
  they are the model's `RC.recurIndex` / `RC.recurLevels` with `fixF1 = true` — the source records the offset of
  a reloaded block next to it (`*block_offset = offset;`).
  The model walks the levels last-first (`inner.reverse`), the code splits the last element off a slice.
-/
import Grenad.SrcTie.IndexCursorIter

set_option linter.unusedSimpArgs false
set_option linter.unusedVariables false

namespace Grenad.SrcTie
open Grenad Grenad.R Grenad.Gen

theorem getElem!_append_cons' {α : Type} [Inhabited α] (pre : List α) (n : Nat) (h : n = pre.length)
    (x : α) (rest : List α) : (pre ++ x :: rest)[n]! = x := by
  subst h; simp

theorem set_append_cons' {α : Type} (pre : List α) (n : Nat) (h : n = pre.length) (x y : α) (rest : List α) :
    (pre ++ x :: rest).set n y = pre ++ y :: rest := by
  subst h; simp

theorem take_append_cons {α : Type} (pre : List α) (x : α) (rest : List α) :
    (pre ++ x :: rest).take pre.length = pre := by
  simp

theorem drop_append_cons {α : Type} (pre : List α) (x : α) (rest : List α) :
    (pre ++ x :: rest).drop pre.length = x :: rest := by
  simp

section
variable (cd : Codec) (file : Bytes) (Q : Grenad.Block → Prop)
  (ops : BlockOps Grenad.BlockCursor) (m : Mov)

/-! ### the model's `recurIndex`, case by case -/

omit cd file Q in
theorem recurIndex_some (load : Nat → Option Grenad.BlockCursor) (c : RC Grenad.BlockCursor)
    (inner rev' : List (Nat × Grenad.BlockCursor)) (r : Option Entry) (log' : List Nat)
    (hi : c.inner = some inner)
    (h : RC.recurLevels ops load true m inner.reverse c.log = some (rev', r, log')) :
    RC.recurIndex ops load true m c = some ({ c with inner := some rev'.reverse, log := log' }, r) := by
  unfold RC.recurIndex
  simp only [hi, h]

omit cd file Q in
theorem recurIndex_init_none (load : Nat → Option Grenad.BlockCursor) (c : RC Grenad.BlockCursor)
    (log1 : List Nat) (hi : c.inner = none)
    (h : RC.initialIndex ops load m (c.levels + 1) c.base [] c.log = some (none, log1)) :
    RC.recurIndex ops load true m c = some ({ c with inner := none, log := log1 }, none) := by
  unfold RC.recurIndex
  simp only [hi, h]

omit cd file Q in
theorem recurIndex_init_some (load : Nat → Option Grenad.BlockCursor) (c : RC Grenad.BlockCursor)
    (inner rev' : List (Nat × Grenad.BlockCursor)) (r : Option Entry) (log1 log' : List Nat)
    (hi : c.inner = none)
    (h : RC.initialIndex ops load m (c.levels + 1) c.base [] c.log = some (some inner, log1))
    (h2 : RC.recurLevels ops load true m inner.reverse log1 = some (rev', r, log')) :
    RC.recurIndex ops load true m c = some ({ c with inner := some rev'.reverse, log := log' }, r) := by
  unfold RC.recurIndex
  simp only [hi, h, h2]

variable (hs : SmallBlocks cd file) (hq : LoadsQ cd file Q)
  (mov : Gen.BlockCursor → M (Option (Bytes × Bytes) × Gen.BlockCursor))
  (htie : MovTie Q mov (ops.apply m)) (hcur : ops.current = Grenad.BlockCursor.current)
include hs hq htie hcur

/-- **`recursive` (the nested function), by induction on the translator's fuel.**  Whenever it returns, the
    model's `recurLevels` (repaired: `fixF1 = true`) over the reversed levels returns the same entry and the
    same levels; no level is added or dropped. -/
theorem src_recursive_go : ∀ (fuel : Nat) (blocks : List (Nat × Gen.BlockCursor)) (rd : Src)
    (ct : CompressionType) (log : List Nat) (r : Option (Bytes × Bytes)) (rd' : Src)
    (blocks' : List (Nat × Gen.BlockCursor)),
    GoodL Q blocks → rd.bytes = file →
    Gen.IndexBlockCursor.recursive_index_block.recursive.go (fun _ => cd.decompress) rd ct blocks mov fuel
      = .ok (r, rd', blocks') →
    ∃ log', RC.recurLevels ops (loadCursor cd file) true m (absL blocks).reverse log
        = some ((absL blocks').reverse, r, log') ∧
      GoodL Q blocks' ∧ rd'.bytes = file ∧ blocks'.length = blocks.length := by
  intro fuel
  induction fuel with
  | zero =>
    intro blocks rd ct log r rd' blocks' hg hrd h
    rw [Gen.IndexBlockCursor.recursive_index_block.recursive.go] at h
    cases h
  | succ fuel ih =>
    intro blocks rd ct log r rd' blocks' hg hrd h
    rw [Gen.IndexBlockCursor.recursive_index_block.recursive.go] at h
    simp only [bind, pure] at h
    rcases List.eq_nil_or_concat blocks with hnil | ⟨init, last, hcat⟩
    · subst hnil
      have hn : ¬ (0 < ([] : List (Nat × Gen.BlockCursor)).length) := by simp
      rw [if_neg hn] at h
      injection h with h
      simp only [Prod.mk.injEq] at h
      obtain ⟨h1, h2, h3⟩ := h
      subst h1 h2 h3
      exact ⟨log, by simp [absL, RC.recurLevels], hg, hrd, rfl⟩
    · rw [List.concat_eq_append] at hcat
      subst hcat
      obtain ⟨lo, lc⟩ := last
      have hpos : 0 < (init ++ [(lo, lc)]).length := by simp
      have hj : (init ++ [(lo, lc)]).length - 1 = init.length := by simp
      simp only [hpos, if_true, hj, getElem!_append_cons, set_append_cons, take_append_cons,
        drop_append_cons] at h
      obtain ⟨x, hmov, h⟩ := bind_ok h
      obtain ⟨r2, a3⟩ := x
      have hglc : Good Q lc := hg (lo, lc) (by simp)
      obtain ⟨happ, hblk⟩ := htie lc r2 a3 hglc hmov
      have hga3 : Good Q a3 := hglc.of_block hblk
      have hrev : (absL (init ++ [(lo, lc)])).reverse = (lo, toBC lc) :: (absL init).reverse := by
        simp [absL]
      rw [hrev]
      cases r2 with
      | some e =>
        obtain ⟨k, ob⟩ := e
        simp only at h
        obtain ⟨v, hv, h⟩ := bind_ok h
        simp only [Except.pure, Except.ok.injEq, Prod.mk.injEq] at h
        obtain ⟨h1, h2, h3⟩ := h
        subst h1 h2 h3
        have hvc := src_bc_current a3 hga3.1 v hv
        refine ⟨log, ?_, hg.left.append (GoodL.cons hga3 (GoodL.nil Q)), hrd, by simp⟩
        simp only [RC.recurLevels, ← happ, hcur, hvc]
        simp [absL]
      | none =>
        simp only at h
        obtain ⟨x1, hrec, h⟩ := bind_ok h
        obtain ⟨r4, rd1, m6⟩ := x1
        obtain ⟨log1, hmodel1, hgm6, hrd1, hlen⟩ := ih init rd ct log r4 rd1 m6 hg.left hrd hrec
        cases r4 with
        | none =>
          simp only [Except.pure, Except.ok.injEq, Prod.mk.injEq] at h
          obtain ⟨h1, h2, h3⟩ := h
          subst h1 h2 h3
          refine ⟨log1, ?_, hgm6.append (GoodL.cons hga3 (GoodL.nil Q)), hrd1, by simp [hlen]⟩
          simp only [RC.recurLevels, ← happ, hmodel1]
          simp [absL]
        | some e =>
          obtain ⟨k, ob⟩ := e
          simp only at h
          obtain ⟨off, hoff, h⟩ := bind_ok h
          have hoffo := beValueN8_ok ob off hoff k
          obtain ⟨x0, c, hload, h⟩ := genLoad_bind_ok cd rd1 off ct _ _ h
          obtain ⟨hmodel, hgood, _, hrd2⟩ := src_load_cursor cd file Q hs hq rd1 hrd1 off _ c x0.snd hload
          have hl' := hlen.symm
          simp only [getElem!_append_cons' m6 init.length hl', set_append_cons' m6 init.length hl'] at h
          obtain ⟨x3, hmov2, h⟩ := bind_ok h
          obtain ⟨r11, a12⟩ := x3
          obtain ⟨happ2, hblk2⟩ := htie c r11 a12 hgood hmov2
          simp only [Except.pure, Except.ok.injEq, Prod.mk.injEq] at h
          obtain ⟨h1, h2, h3⟩ := h
          subst h1 h2 h3
          refine ⟨off :: log1, ?_, hgm6.append (GoodL.cons (hgood.of_block hblk2) (GoodL.nil Q)), hrd2,
            by simp [hlen]⟩
          simp only [RC.recurLevels, ← happ, hmodel1, ← hoffo, hmodel, ← happ2, if_true]
          simp [absL]

/-- **`recursive`** with the fuel the translator passes (`blocks.len() + 1`). -/
theorem src_recursive (blocks : List (Nat × Gen.BlockCursor)) (rd : Src) (ct : CompressionType)
    (log : List Nat) (r : Option (Bytes × Bytes)) (rd' : Src) (blocks' : List (Nat × Gen.BlockCursor))
    (hg : GoodL Q blocks) (hrd : rd.bytes = file)
    (h : Gen.IndexBlockCursor.recursive_index_block.recursive (fun _ => cd.decompress) rd ct blocks mov
      = .ok (r, rd', blocks')) :
    ∃ log', RC.recurLevels ops (loadCursor cd file) true m (absL blocks).reverse log
        = some ((absL blocks').reverse, r, log') ∧
      GoodL Q blocks' ∧ rd'.bytes = file ∧ blocks'.length = blocks.length :=
  src_recursive_go cd file Q ops m hs hq mov htie hcur _ blocks rd ct log r rd' blocks' hg hrd h

/-- **`recursive_index_block`.**  Whenever the translated function returns `(r, self', reader')`, the model's
    `recurIndex` (with `fixF1 = true`) returns `r` and the state `self'` abstracts to. -/
theorem src_recursive_index_block (s : Gen.IndexBlockCursor) (hg : GoodIdx Q s) (rd : Src)
    (hrd : rd.bytes = file) (cur : Option Grenad.BlockCursor) (log : List Nat)
    (r : Option (Bytes × Bytes)) (s' : Gen.IndexBlockCursor) (rd' : Src)
    (h : Gen.IndexBlockCursor.recursive_index_block (fun _ => cd.decompress) s rd mov = .ok (r, s', rd')) :
    ∃ log', RC.recurIndex ops (loadCursor cd file) true m (toRC s cur log) = some (toRC s' cur log', r) ∧
      GoodIdx Q s' ∧ rd'.bytes = file ∧ s'.base_block_offset = s.base_block_offset ∧
      s'.index_levels = s.index_levels ∧ s'.compression_type = s.compression_type := by
  unfold Gen.IndexBlockCursor.recursive_index_block at h
  simp only [bind, pure] at h
  cases hinner : s.inner with
  | some inner =>
    rw [hinner] at h
    simp only [Option.isNone_some, Bool.false_eq_true, if_false, Option.getD_some] at h
    obtain ⟨x, hrec, h⟩ := bind_ok h
    obtain ⟨r4, rd5, m6⟩ := x
    simp only [Except.pure, Except.ok.injEq, Prod.mk.injEq] at h
    obtain ⟨h1, h2, h3⟩ := h
    subst h1 h2 h3
    obtain ⟨log', hmodel, hgm6, hrd5, _⟩ :=
      src_recursive cd file Q ops m hs hq mov htie hcur inner rd s.compression_type log r4 rd5 m6
        (hg inner hinner) hrd hrec
    have hri : (toRC s cur log).inner = some (absL inner) := by rw [toRC_inner, hinner]; rfl
    refine ⟨log', ?_, ?_, hrd5, rfl, rfl, rfl⟩
    · rw [recurIndex_some ops m (loadCursor cd file) (toRC s cur log) (absL inner) _ r4 log' hri hmodel]
      simp only [List.reverse_reverse]
      rfl
    · intro l hl; simp only [Option.some.injEq] at hl; subst hl; exact hgm6
  | none =>
    rw [hinner] at h
    simp only [Option.isNone_none, if_true] at h
    obtain ⟨x, hinit, h⟩ := bind_ok h
    obtain ⟨ri, si, rdi⟩ := x
    obtain ⟨hsi, hrdi, hgi, log1, hmodel1⟩ :=
      src_initial_index_blocks cd file Q hs hq ops m mov htie s rd hrd log ri si rdi hinit
    subst hsi
    have hri : (toRC si cur log).inner = none := by rw [toRC_inner, hinner]; rfl
    cases ri with
    | none =>
      simp only [Except.pure, Except.ok.injEq, Prod.mk.injEq] at h
      obtain ⟨h1, h2, h3⟩ := h
      subst h1 h2 h3
      refine ⟨log1, ?_, ?_, hrdi, rfl, rfl, rfl⟩
      · rw [recurIndex_init_none ops m (loadCursor cd file) (toRC si cur log) log1 hri hmodel1]
        rfl
      · intro l hl; cases hl
    | some inner =>
      simp only [Option.getD_some] at h
      obtain ⟨x, hrec, h⟩ := bind_ok h
      obtain ⟨r4, rd5, m6⟩ := x
      simp only [Except.pure, Except.ok.injEq, Prod.mk.injEq] at h
      obtain ⟨h1, h2, h3⟩ := h
      subst h1 h2 h3
      obtain ⟨log', hmodel, hgm6, hrd5, _⟩ :=
        src_recursive cd file Q ops m hs hq mov htie hcur inner rdi si.compression_type log1 r4 rd5 m6
          (hgi inner rfl) hrdi hrec
      refine ⟨log', ?_, ?_, hrd5, rfl, rfl, rfl⟩
      · rw [recurIndex_init_some ops m (loadCursor cd file) (toRC si cur log) (absL inner) _ r4 log1 log' hri
          hmodel1 hmodel]
        simp only [List.reverse_reverse]
        rfl
      · intro l hl; simp only [Option.some.injEq] at hl; subst hl; exact hgm6

end

end Grenad.SrcTie
