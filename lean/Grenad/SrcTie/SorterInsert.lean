/-
  Grenad.SrcTie.SorterInsert — translator tie for the control flow of `Sorter::insert` (src/sorter.rs,
  regenerated from /repo/src on every run as `Gen.Sorter.insert`).  The three methods it calls —
  `Entries::insert` (raw allocation, `copy_from_slice` into the aligned buffer), `Sorter::write_chunk`
  (chunk creator, writer, sort) and `Sorter::merge_chunks` (the merger over chunk readers) — are outside
  the translator's subset; the translator passes them as parameters whose types were read off their
  signatures.  `src_sorter_insert` proves: if the three parameters implement the model's three parts
  (`Entries.insert`, `Sorter.writeChunk`, `Sorter.mergeChunks`) on related states, then the regenerated
  body of `Sorter::insert` is the model's `Sorter.insert` — same spill decision, the spill BEFORE the
  insert, the chunk merge AFTER it, the merge test on the chunk count after the spill against
  `max_nb_chunks`, `Err(Error::Merge)` propagated by `?`, a panic exactly where the model traps.

  `chunks_total_size` is not part of the model (it only feeds `estimated_…` getters); the generated code
  does `self.chunks_total_size += self.write_chunk()?` with the overflow-checked `u64` addition, hence the
  explicit size hypotheses `s.chunks_total_size < 2^63` and `n < 2^63` on the byte count `write_chunk`
  returns (a chunk file of ≥ 2^63 bytes cannot exist: file offsets are `i64`), and
  `self.chunks_total_size = self.merge_chunks()?` replaces it (no arithmetic).
-/
import Grenad.SrcTie.Sorter

set_option linter.unusedSimpArgs false
set_option linter.unusedVariables false

namespace Grenad.SrcTie
open Grenad Grenad.R Grenad.Gen

/-- The translated sorter `s` and the model sorter `ms` agree on everything `Sorter::insert` reads:
    the buffer bookkeeping (`toEntries` fixes `live := true`: the allocation exists), the three
    configuration values and the number of chunks.  The model's `events` / `calls` / chunk contents are
    ghost; `chunks_total_size` has no model counterpart. -/
def RelS (s : Gen.Sorter) (ms : Grenad.Sorter) : Prop :=
  toEntries s.entries ms.entries.items = ms.entries ∧ s.dump_threshold = ms.cfg.budget ∧
  s.allow_realloc = ms.cfg.allowRealloc ∧ s.max_nb_chunks = ms.cfg.maxNb ∧
  s.chunks.length = ms.chunks.length

/-- `Gen.Sorter.insert` with its `do`-block (mutable `self_`, join points) unfolded to plain matches,
    once the value of `self.entries.fits(key, val)` is known. -/
theorem si_gen_insert_unfold
    (extIns : Gen.Entries → List UInt8 → List UInt8 → M Gen.Entries)
    (extWc extMc : Gen.Sorter → M (Nat × Gen.Sorter))
    (s : Gen.Sorter) (k v : Bytes) (fit : Bool)
    (hf : Gen.Entries.fits s.entries k v = .ok fit) :
    Gen.Sorter.insert extIns extWc extMc s k v =
      if (fit || (!decide (s.entries.buffer.len ≥ s.dump_threshold) && s.allow_realloc)) then
        (match extIns s.entries k v with
         | .ok m => .ok { s with entries := m }
         | .error e => .error e)
      else
        (match extWc s with
         | .error e => .error e
         | .ok (n, s1) =>
           match add 64 s1.chunks_total_size n with
           | .error e => .error e
           | .ok tot =>
             match extIns s1.entries k v with
             | .error e => .error e
             | .ok m =>
               let s2 : Gen.Sorter := { s1 with chunks_total_size := tot, entries := m }
               if s2.max_nb_chunks ≤ s2.chunks.length then
                 match extMc s2 with
                 | .error e => .error e
                 | .ok (r, s3) => .ok { s3 with chunks_total_size := r }
               else .ok s2) := by
  unfold Gen.Sorter.insert
  simp only [hf, src_threshold_exceeded, bind, Except.bind, pure, Except.pure]
  cases fit
  · simp
    split
    · cases extIns s.entries k v <;> rfl
    · cases extWc s with
      | error e => rfl
      | ok p =>
        obtain ⟨n, s1⟩ := p
        simp only
        cases add 64 s1.chunks_total_size n with
        | error e => rfl
        | ok tot =>
          simp only
          cases extIns s1.entries k v with
          | error e => rfl
          | ok m =>
            simp only
            split
            · generalize extMc _ = r
              cases r with
              | error e => rfl
              | ok p => obtain ⟨r, s3⟩ := p; rfl
            · rfl
  · simp
    cases extIns s.entries k v <;> rfl

/-- **`Sorter::insert` on regenerated code is the model's `Sorter.insert`**, relative to the three
    external methods.

    Hypotheses on the externals (each: "implements the model's part on related states"):
    * `hIns` — `Entries::insert(key, val)` on a buffer whose bookkeeping is `me`: succeeds with the
      bookkeeping of the model's `Entries.insert` (fuel 64 = at most 64 doublings of a `usize`), panics
      where the model traps (asserts on `u32::MAX`, layout overflow, out-of-range slice);
    * `hWc` — `write_chunk`: `Ok(n)` with a state related to `Sorter.writeChunk`'s, `chunks_total_size`
      untouched and `n < 2^63`; `Err(Error::Merge)` when the model's merge fails; a panic on a model trap;
    * `hMc` — `merge_chunks`: the same for `Sorter.mergeChunks`.

    Satisfiability of the hypotheses: they are implemented by the model itself.  Take
    `extIns ge k v := match (toEntries ge []).insert k v 64 with | .ok (e, _) => .ok ⟨⟨e.bufLen⟩, e.entriesLen, e.boundsCount⟩ | .error _ => .error (.panic "")`
    (the numeric fields and the outcome of `Entries.insert` do not depend on `items`, and `insert` keeps
    `live = true`); and for a merge function that never fails (`∀ k vs, (mf k vs).isSome`: then
    `writeChunk` and `mergeChunks` always succeed — `mergeGroups_total` in Proofs/SorterRun.lean,
    `Merger.run_ne_none` in Proofs/IOProofs.lean — and neither ever traps)
    `extWc s := .ok (0, { s with entries := { s.entries with entries_len := 0, bounds_count := 0 }, chunks := s.chunks ++ [()] })`
    (`writeChunk` clears the entries and appends one chunk) and
    `extMc s := .ok (0, { s with chunks := [()] })` (`mergeChunks` leaves exactly one chunk).
    Whether the *Rust* bodies of the three methods satisfy them is not claimed here: that is the content
    of C08 (`Entries` arithmetic and `store`), C07 (`write_chunk`, `merge_chunks` over the writer and
    merger ties) and the trusted reading of the unsafe buffer code (DESIGN §3.5).

    Side conditions: `hb`, `hkv` are those of `src_entries_fits` (`usize` arithmetic of `fits`; both hold
    for any real buffer: `16 * bounds_count ≤ buffer.len < 2^63`, slices are `< 2^63` bytes);
    `hts` with `n < 2^63` keeps `chunks_total_size += n` inside `u64`. -/
theorem src_sorter_insert (mf : MergeFn)
    (extIns : Gen.Entries → List UInt8 → List UInt8 → M Gen.Entries)
    (extWc extMc : Gen.Sorter → M (Nat × Gen.Sorter))
    (k v : Bytes)
    (hIns : ∀ (ge : Gen.Entries) (me : Grenad.Entries), toEntries ge me.items = me →
      match me.insert k v 64 with
      | .ok (e', _) => ∃ ge', extIns ge k v = .ok ge' ∧ toEntries ge' e'.items = e'
      | .error _ => ∃ msg, extIns ge k v = .error (.panic msg))
    (hWc : ∀ (s : Gen.Sorter) (ms : Grenad.Sorter), RelS s ms →
      match Grenad.Sorter.writeChunk mf ms with
      | .ok ms' => ∃ n s', extWc s = .ok (n, s') ∧ RelS s' ms' ∧
          s'.chunks_total_size = s.chunks_total_size ∧ n < 2 ^ 63
      | .error .merge => extWc s = .error (Fail.err RErr.merge)
      | .error (.trap _) => ∃ msg, extWc s = .error (.panic msg))
    (hMc : ∀ (s : Gen.Sorter) (ms : Grenad.Sorter), RelS s ms →
      match Grenad.Sorter.mergeChunks mf ms with
      | .ok ms' => ∃ n s', extMc s = .ok (n, s') ∧ RelS s' ms'
      | .error .merge => extMc s = .error (Fail.err RErr.merge)
      | .error (.trap _) => ∃ msg, extMc s = .error (.panic msg))
    (s : Gen.Sorter) (ms : Grenad.Sorter) (hR : RelS s ms)
    (hb : s.entries.bounds_count * 16 < 2 ^ 64) (hkv : 16 + k.length + v.length < 2 ^ 64)
    (hts : s.chunks_total_size < 2 ^ 63) :
    match Grenad.Sorter.insert mf ms k v with
    | .ok ms' => ∃ s', Gen.Sorter.insert extIns extWc extMc s k v = .ok s' ∧ RelS s' ms'
    | .error .merge => Gen.Sorter.insert extIns extWc extMc s k v = .error (Fail.err RErr.merge)
    | .error (.trap _) => ∃ msg, Gen.Sorter.insert extIns extWc extMc s k v = .error (.panic msg) := by
  obtain ⟨hE, hT, hA, hM, hC⟩ := hR
  have hf := src_entries_fits s.entries ms.entries.items k v hb hkv
  rw [hE] at hf
  unfold Grenad.Sorter.insert
  cases hfit : ms.entries.fits k v with
  | error t =>
    rw [hfit] at hf
    obtain ⟨msg, hm⟩ := hf
    exact ⟨msg, by simp [Gen.Sorter.insert, hm, bind, Except.bind]⟩
  | ok fit =>
    rw [hfit] at hf
    simp only at hf
    rw [si_gen_insert_unfold extIns extWc extMc s k v fit hf]
    have hbl : s.entries.buffer.len = ms.entries.bufLen := by rw [← hE]; rfl
    have hcond : (fit || (!decide (s.entries.buffer.len ≥ s.dump_threshold) && s.allow_realloc))
        = (fit || (!decide (ms.entries.bufLen ≥ ms.cfg.budget) && ms.cfg.allowRealloc)) := by
      rw [hbl, hT, hA]
    rw [hcond]
    simp only
    by_cases hc : (fit || (!decide (ms.entries.bufLen ≥ ms.cfg.budget) && ms.cfg.allowRealloc)) = true
    · simp only [hc, if_true]
      have hi := hIns s.entries ms.entries hE
      cases hins : ms.entries.insert k v 64 with
      | error t =>
        rw [hins] at hi
        obtain ⟨msg, hm⟩ := hi
        exact ⟨msg, by rw [hm]⟩
      | ok p =>
        obtain ⟨e', ev⟩ := p
        rw [hins] at hi
        obtain ⟨ge', hg, hte⟩ := hi
        simp only [hg]
        exact ⟨_, rfl, hte, hT, hA, hM, hC⟩
    · simp only [hc, Bool.false_eq_true, if_false]
      have hw := hWc s ms ⟨hE, hT, hA, hM, hC⟩
      cases hwc : Grenad.Sorter.writeChunk mf ms with
      | error e =>
        rw [hwc] at hw
        cases e with
        | merge => simp only at hw ⊢; rw [hw]
        | trap t =>
          simp only at hw ⊢
          obtain ⟨msg, hm⟩ := hw
          exact ⟨msg, by rw [hm]⟩
      | ok ms1 =>
        rw [hwc] at hw
        obtain ⟨n, s1, hg, ⟨hE1, hT1, hA1, hM1, hC1⟩, hts1, hn⟩ := hw
        have hadd : add 64 s1.chunks_total_size n = .ok (s1.chunks_total_size + n) := by
          have : s1.chunks_total_size + n < 2 ^ 64 := by omega
          simp [add, this, pure, Except.pure]
        simp only [hg, hadd]
        have hi := hIns s1.entries ms1.entries hE1
        cases hins : ms1.entries.insert k v 64 with
        | error t =>
          rw [hins] at hi
          obtain ⟨msg, hm⟩ := hi
          exact ⟨msg, by rw [hm]⟩
        | ok p =>
          obtain ⟨e', ev⟩ := p
          rw [hins] at hi
          obtain ⟨ge', hg', hte⟩ := hi
          simp only [hg', ge_iff_le]
          have hR2 : RelS { s1 with chunks_total_size := s1.chunks_total_size + n, entries := ge' }
              { ms1 with entries := e', events := ms1.events ++ ev } :=
            ⟨hte, hT1, hA1, hM1, hC1⟩
          by_cases hmx : ms1.cfg.maxNb ≤ ms1.chunks.length
          · have hmx' : s1.max_nb_chunks ≤ s1.chunks.length := by rw [hM1, hC1]; exact hmx
            simp only [hmx, hmx', if_true]
            have hm := hMc _ _ hR2
            cases hmc : Grenad.Sorter.mergeChunks mf
                { ms1 with entries := e', events := ms1.events ++ ev } with
            | error e =>
              rw [hmc] at hm
              cases e with
              | merge => simp only at hm ⊢; rw [hm]
              | trap t =>
                simp only at hm ⊢
                obtain ⟨msg, hm'⟩ := hm
                exact ⟨msg, by rw [hm']⟩
            | ok ms3 =>
              rw [hmc] at hm
              obtain ⟨r, s3, hg3, hE3, hT3, hA3, hM3, hC3⟩ := hm
              simp only [hg3]
              exact ⟨_, rfl, hE3, hT3, hA3, hM3, hC3⟩
          · have hmx' : ¬ s1.max_nb_chunks ≤ s1.chunks.length := by rw [hM1, hC1]; exact hmx
            simp only [hmx, hmx', if_false]
            exact ⟨_, rfl, hR2⟩

#print axioms src_sorter_insert

end Grenad.SrcTie
