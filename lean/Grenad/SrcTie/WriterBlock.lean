/-
  Grenad.SrcTie.WriterBlock — translator tie for `compress_and_write_block` of src/writer.rs (regenerated
  from /repo/src on every run), the one place where a block leaves a writer: finish the block writer,
  compress, write the 8-byte big-endian length and the body, and — through `BlockBuffer`'s `Drop`,
  whose shape the translator checks on the source — reset the block writer.
  The compressor is a parameter on both sides.  Composed with the tie of `Block::read_from`
  (SrcTie.BlockLoad) this gives the framed-block round trip on regenerated code for every lawful codec.
-/
import Grenad.Generated.Src.SrcWriterBlock
import Grenad.SrcTie.BlockWriter
import Grenad.SrcTie.BlockLoad
import Grenad.Proofs.WriterTreeBase
import Grenad.Proofs.TBlock2

set_option linter.unusedSimpArgs false
set_option linter.unusedVariables false

namespace Grenad.SrcTie
open Grenad Grenad.R Grenad.Gen

/-- `compress_and_write_block` appends exactly the model's `W.blockBytes` of the finished block to the
    sink and hands the block writer back reset (`BlockBuffer::drop`), whatever the codec and level. -/
theorem src_compress_and_write_block (cd : Codec) (out : Bytes) (w : Gen.BlockWriter) (items : List Entry)
    (ct : CompressionType) (lvl : Nat)
    (h : w.index_offsets.length < 2 ^ 32)
    (hlen : (cd.compress (BW.finish (toBW w items))).length < 2 ^ 64) :
    ∃ w', Gen.compress_and_write_block (fun _ _ b => some (cd.compress b)) out w ct lvl
        = .ok (out ++ W.blockBytes cd (BW.finish (toBW w items)), w')
      ∧ toBW w' [] = (toBW w items).reset := by
  have hf := src_bw_finish w items h
  unfold Gen.compress_and_write_block
  cases hfin : BlockWriter.finish w with
  | error e => rw [hfin] at hf; simp [Except.map] at hf
  | ok w1 =>
    rw [hfin] at hf
    simp only [Except.map, Except.ok.injEq] at hf
    have hw1 : w1.index_key_interval = w.index_key_interval ∧ w1.index_offsets = w.index_offsets := by
      simp only [BlockWriter.finish, bind, Except.bind, pure, Except.pure, tryInto, h, if_true] at hfin
      cases hfin; exact ⟨rfl, rfl⟩
    have hb : (beBytes 8) = be64 := by funext v; simp [be64, beBytes_eq_beN]
    obtain ⟨w', hr, hr2⟩ := src_bw_reset w1 items
    have hlen' : (cd.compress (toBW w items).finish).length < 18446744073709551616 := hlen
    simp only [bind, Except.bind, hfin, pure, Except.pure, liftCompress, hf, tryInto, hlen, hlen', if_true, hr, hb]
    refine ⟨w', ?_, ?_⟩
    · simp [W.blockBytes, List.append_assoc]
    · rw [hr2]
      simp [toBW, BW.reset, hw1.1, hw1.2]

/-- **Framed-block round trip on regenerated code**: what the translated `compress_and_write_block`
    appended at the end of `pre`, followed by anything, is read back by the translated
    `Block::read_from` positioned at `pre.length` as the block writer's payload and offset table —
    for every lawful codec (`decompress ∘ compress = id`). -/
theorem src_block_written_then_read (cd : Codec) (hcd : cd.Lawful) (pre post : Bytes) (w : Gen.BlockWriter)
    (items : List Entry) (ct : CompressionType) (lvl : Nat) (b0 : Gen.Block)
    (h : w.index_offsets.length < 2 ^ 32) (h2 : ∀ x ∈ w.index_offsets, x < 2 ^ 64)
    (hlen : (pre ++ W.blockBytes cd (BW.finish (toBW w items)) ++ post).length < 2 ^ 64) :
    ∃ w' file b',
      Gen.compress_and_write_block (fun _ _ b => some (cd.compress b)) pre w ct lvl = .ok (file, w')
      ∧ Gen.Block.read_from (fun _ => cd.decompress) b0 { bytes := file ++ post, pos := pre.length } = .ok b'
      ∧ toBlock b' = { payload := w.buffer, offsets := w.index_offsets }
      ∧ b'.payload_size ≤ b'.buffer.length := by
  have hc : (cd.compress (BW.finish (toBW w items))).length < 2 ^ 64 := by
    simp [blockBytes_length] at hlen; omega
  obtain ⟨w', hw, _⟩ := src_compress_and_write_block cd pre w items ct lvl h hc
  have hload := loadBlock_of_split cd hcd pre post (BW.finish (toBW w items)) hlen
  have hparse := parse_finish (toBW w items) (by simpa [toBW] using h) (by simpa [toBW] using h2)
  have hrd := src_block_read_from cd b0 (pre ++ W.blockBytes cd (BW.finish (toBW w items)) ++ post) pre.length
  rw [hparse] at hload
  unfold loadBlock at hload
  cases hl : loadBlockLen cd (pre ++ W.blockBytes cd (BW.finish (toBW w items)) ++ post) pre.length with
  | none => rw [hl] at hload; simp at hload
  | some r =>
    obtain ⟨blk, n⟩ := r
    rw [hl] at hload hrd
    simp only [Option.map_some, Option.some.injEq] at hload
    obtain ⟨b', hb1, hb2, hb3, _⟩ := hrd
    refine ⟨w', _, b', hw, hb1, ?_, hb3⟩
    rw [hb2, hload]
    simp [toBW]

end Grenad.SrcTie
