/-
  Grenad.SrcTie.ReaderTotal — total correctness of the regenerated reader on written files, part 3:
  the `ReaderCursor` operations, histories, and the unconditional end-to-end theorems.

  `RTState`: the reader reads `file`, the index cursor satisfies `RTIdx` (ReaderTotalIdx.lean) and the data cursor
  held (if any) is over a writer-built block.  Every public call of the regenerated `ReaderCursor` RETURNS from such a
  state and re-establishes it (`rt_rc_step`), hence so does every history (`rt_rc_run`).  The freshly opened cursor
  over a file of an `Assembly.Setting` satisfies it (`rt_state_open`), which gives

    `src_reader_total`        every history of generated calls returns `.ok`;
    `src_C03_history_total`   … and the results agree with the specification cursor over the inserted entries;
    `src_C03_history_open_total`  the same from `Reader::new` + `into_cursor`.
-/
import Grenad.SrcTie.ReaderTotalIdx

set_option linter.unusedSimpArgs false
set_option linter.unusedVariables false

namespace Grenad.SrcTie
open Grenad Grenad.R Grenad.Gen Grenad.Assembly Grenad.TCursor

/-- the invariant of the translated `ReaderCursor` over `file` -/
def RTState (file : Bytes) (iv : Nat) (log : List Emitted) (s : Store) (root levels : Nat)
    (st : Gen.ReaderCursor) : Prop :=
  st.reader.reader.bytes = file ∧ RTIdx iv log s root levels st.index_block_cursor ∧
    ∀ c, st.current_cursor = some c → RTCur iv log (RTG s 0) c

/-- what every public call establishes -/
abbrev RTPost (file : Bytes) (iv : Nat) (log : List Emitted) (s : Store) (root levels : Nat)
    (x : Option (Bytes × Bytes) × Gen.ReaderCursor) : Prop :=
  RTState file iv log s root levels x.2

section
variable {cd : Codec} {file : Bytes} {iv : Nat} {log : List Emitted} {s : Store} {root levels : Nat}
variable (hs : SmallBlocks cd file) (hB : ByteSim s (loadCursor cd file) (Rb iv log))
  (hlv : levels ≤ 255) (hroot : RTPt s (levels + 1) root)
include hs hB

/-- the common tail of `move_on_first/last/key_greater_than_or_equal_to` returns -/
theorem rt_enter_move (m : Mov) (rd : Src) (hrd : rd.bytes = file) (k ob : Bytes) (h8 : ob.length = 8)
    (hpt : RTPt s 0 (offOf (k, ob))) (md : Gen.Metadata) (si : Gen.IndexBlockCursor)
    (hsi : RTIdx iv log s root levels si) :
    RTOk (Except.bind (beValueN 8 ob) fun off =>
        Except.bind (liftIo (rd.seekStart off).fst) fun _ =>
          Except.bind ({ metadata := md, reader := (rd.seekStart off).snd } : Gen.Reader).compression_type fun ct =>
            Except.bind (Gen.Block.new (fun _ => cd.decompress) (rd.seekStart off).snd ct) fun x =>
              Except.bind x.fst.into_cursor fun c =>
                Except.bind (genMove m ((some c).getD default)) fun x2 =>
                  Except.pure (x2.fst, ({ index_block_cursor := si, current_cursor := some x2.snd,
                                          reader := { metadata := md, reader := x.snd } } : Gen.ReaderCursor)))
      (RTPost file iv log s root levels) := by
  simp only [rt_beValueN8 k ob h8, ok_bind, Gen.Reader.compression_type, pure, Except.pure]
  refine rt_genLoad_bind cd rd _ md.compression_type _ (rt_load hs hB hpt rd hrd _) ?_
  rintro x c ⟨hc, hx⟩
  simp only [Option.getD_some]
  refine rtok_bind (rt_move hc m) ?_
  rintro ⟨r, c'⟩ ⟨hc', -⟩
  refine rtok_ok ⟨hx, hsi, ?_⟩
  intro c0 hc0
  simp only [Option.some.injEq] at hc0
  subst hc0
  exact hc'

/-- the tail of `next_block_from_index` / `prev_block_from_index` returns -/
theorem rt_enter_block (rd : Src) (hrd : rd.bytes = file) (k ob : Bytes) (h8 : ob.length = 8)
    (hpt : RTPt s 0 (offOf (k, ob))) (md : Gen.Metadata) (si : Gen.IndexBlockCursor)
    (cur : Option Gen.BlockCursor) :
    RTOk (Except.bind (beValueN 8 ob) fun off =>
        Except.bind (liftIo (rd.seekStart off).fst) fun _ =>
          Except.bind ({ metadata := md, reader := (rd.seekStart off).snd } : Gen.Reader).compression_type fun ct =>
            Except.bind (Gen.Block.new (fun _ => cd.decompress) (rd.seekStart off).snd ct) fun x =>
              Except.pure (some x.fst, ({ index_block_cursor := si, current_cursor := cur,
                                          reader := { metadata := md, reader := x.snd } } : Gen.ReaderCursor)))
      fun y => y.2.index_block_cursor = si ∧ y.2.current_cursor = cur ∧ y.2.reader.reader.bytes = file ∧
        y.2.reader.metadata = md ∧
        ∃ blk, y.1 = some blk ∧ RTCur iv log (RTG s 0) ({ block := blk, current_offset := none } : Gen.BlockCursor) := by
  simp only [rt_beValueN8 k ob h8, ok_bind, Gen.Reader.compression_type, pure, Except.pure]
  obtain ⟨⟨c, rd'⟩, hgen, hc, hrd'⟩ := rt_load hs hB hpt rd hrd md.compression_type
  unfold genLoad at hgen
  obtain ⟨u, hu, hgen⟩ := bind_ok hgen
  obtain ⟨x, hx, hgen⟩ := bind_ok hgen
  simp only [Gen.Block.into_cursor, Gen.BlockCursor.new, bind, pure, Except.bind, Except.pure, Except.ok.injEq,
    Prod.mk.injEq] at hgen
  obtain ⟨h1, h2⟩ := hgen
  subst h1 h2
  rw [hu, ok_bind, hx, ok_bind]
  exact rtok_ok ⟨rfl, rfl, hrd', rfl, x.fst, rfl, hc⟩

include hlv hroot

theorem rt_rc_first (st : Gen.ReaderCursor) (hst : RTState file iv log s root levels st) :
    RTOk (Gen.ReaderCursor.move_on_first (fun _ => cd.decompress) st) (RTPost file iv log s root levels) := by
  obtain ⟨hfile, hI, hcur⟩ := hst
  unfold Gen.ReaderCursor.move_on_first
  simp only [bind, pure]
  refine rtok_bind (rt_index_move_on_first hs hB hlv hroot _ hI _ hfile) ?_
  rintro ⟨ri, si, rdi⟩ ⟨h1, h2, h3⟩
  cases ri with
  | none => exact rtok_pure ⟨h1, h2, fun c hc => by cases hc⟩
  | some e =>
    obtain ⟨k, ob⟩ := e
    obtain ⟨h8, hpt⟩ := h3 _ rfl
    exact rt_enter_move hs hB .first rdi h1 k ob h8 hpt _ si h2

theorem rt_rc_last (st : Gen.ReaderCursor) (hst : RTState file iv log s root levels st) :
    RTOk (Gen.ReaderCursor.move_on_last (fun _ => cd.decompress) st) (RTPost file iv log s root levels) := by
  obtain ⟨hfile, hI, hcur⟩ := hst
  unfold Gen.ReaderCursor.move_on_last
  simp only [bind, pure]
  refine rtok_bind (rt_index_move_on_last hs hB hlv hroot _ hI _ hfile) ?_
  rintro ⟨ri, si, rdi⟩ ⟨h1, h2, h3⟩
  cases ri with
  | none => exact rtok_pure ⟨h1, h2, fun c hc => by cases hc⟩
  | some e =>
    obtain ⟨k, ob⟩ := e
    obtain ⟨h8, hpt⟩ := h3 _ rfl
    exact rt_enter_move hs hB .last rdi h1 k ob h8 hpt _ si h2

theorem rt_rc_ge (st : Gen.ReaderCursor) (hst : RTState file iv log s root levels st) (key : Bytes) :
    RTOk (Gen.ReaderCursor.move_on_key_greater_than_or_equal_to (fun _ => cd.decompress) st key)
      (RTPost file iv log s root levels) := by
  obtain ⟨hfile, hI, hcur⟩ := hst
  unfold Gen.ReaderCursor.move_on_key_greater_than_or_equal_to
  simp only [bind, pure]
  refine rtok_bind (rt_index_move_on_ge hs hB hlv hroot _ hI key _ hfile) ?_
  rintro ⟨ri, si, rdi⟩ ⟨h1, h2, h3⟩
  cases ri with
  | none => exact rtok_pure ⟨h1, h2, hcur⟩
  | some e =>
    obtain ⟨k, ob⟩ := e
    obtain ⟨h8, hpt⟩ := h3 _ rfl
    exact rt_enter_move hs hB (.ge key) rdi h1 k ob h8 hpt _ si h2

/-- what `next_block_from_index` / `prev_block_from_index` establish -/
abbrev RTBlockPost (file : Bytes) (iv : Nat) (log : List Emitted) (s : Store) (root levels : Nat)
    (st : Gen.ReaderCursor) (y : Option Gen.Block × Gen.ReaderCursor) : Prop :=
  RTIdx iv log s root levels y.2.index_block_cursor ∧ y.2.current_cursor = st.current_cursor ∧
    y.2.reader.reader.bytes = file ∧
    ∀ blk, y.1 = some blk → RTCur iv log (RTG s 0) ({ block := blk, current_offset := none } : Gen.BlockCursor)

theorem rt_rc_next_block (st : Gen.ReaderCursor) (hfile : st.reader.reader.bytes = file)
    (hI : RTIdx iv log s root levels st.index_block_cursor) :
    RTOk (Gen.ReaderCursor.next_block_from_index (fun _ => cd.decompress) st)
      (RTBlockPost file iv log s root levels st) := by
  unfold Gen.ReaderCursor.next_block_from_index
  simp only [bind, pure]
  refine rtok_bind (rt_index_move_on_next hs hB hlv hroot _ hI _ hfile) ?_
  rintro ⟨ri, si, rdi⟩ ⟨h1, h2, h3⟩
  cases ri with
  | none => exact rtok_pure ⟨h2, rfl, h1, fun blk hb => by cases hb⟩
  | some e =>
    obtain ⟨k, ob⟩ := e
    obtain ⟨h8, hpt⟩ := h3 _ rfl
    refine rtok_mono (rt_enter_block hs hB rdi h1 k ob h8 hpt _ si _) ?_
    rintro ⟨rb, y⟩ ⟨g1, g2, g3, -, blk, g5, g6⟩
    simp only at g1 g2 g3 g5
    refine ⟨by simp only [g1]; exact h2, g2, g3, ?_⟩
    intro blk' hb'
    simp only [g5, Option.some.injEq] at hb'
    subst hb'
    exact g6

theorem rt_rc_prev_block (st : Gen.ReaderCursor) (hfile : st.reader.reader.bytes = file)
    (hI : RTIdx iv log s root levels st.index_block_cursor) :
    RTOk (Gen.ReaderCursor.prev_block_from_index (fun _ => cd.decompress) st)
      (RTBlockPost file iv log s root levels st) := by
  unfold Gen.ReaderCursor.prev_block_from_index
  simp only [bind, pure]
  refine rtok_bind (rt_index_move_on_prev hs hB hlv hroot _ hI _ hfile) ?_
  rintro ⟨ri, si, rdi⟩ ⟨h1, h2, h3⟩
  cases ri with
  | none => exact rtok_pure ⟨h2, rfl, h1, fun blk hb => by cases hb⟩
  | some e =>
    obtain ⟨k, ob⟩ := e
    obtain ⟨h8, hpt⟩ := h3 _ rfl
    refine rtok_mono (rt_enter_block hs hB rdi h1 k ob h8 hpt _ si _) ?_
    rintro ⟨rb, y⟩ ⟨g1, g2, g3, -, blk, g5, g6⟩
    simp only at g1 g2 g3 g5
    refine ⟨by simp only [g1]; exact h2, g2, g3, ?_⟩
    intro blk' hb'
    simp only [g5, Option.some.injEq] at hb'
    subst hb'
    exact g6

theorem rt_rc_next (st : Gen.ReaderCursor) (hst : RTState file iv log s root levels st) :
    RTOk (Gen.ReaderCursor.move_on_next (fun _ => cd.decompress) st) (RTPost file iv log s root levels) := by
  unfold Gen.ReaderCursor.move_on_next
  simp only [bind, pure]
  cases hcur : st.current_cursor with
  | none =>
    simp only [optMapMut, pure, Except.pure, ok_bind]
    have hse : ({ index_block_cursor := st.index_block_cursor, current_cursor := none, reader := st.reader } :
        Gen.ReaderCursor) = st := by rw [← hcur]
    rw [hse]
    refine rtok_bind (rt_rc_first hs hB hlv hroot st hst) ?_
    rintro ⟨r, st'⟩ h
    exact rtok_ok h
  | some c =>
    obtain ⟨hfile, hI, hc⟩ := hst
    simp only [optMapMut, bind, pure]
    refine rtok_bind (rtok_bind (rt_move (hc c hcur) .next) (Q := fun y => ∃ rz cz, y = (some rz, some cz) ∧
      RTCur iv log (RTG s 0) cz) ?_) ?_
    · rintro ⟨rz, cz⟩ ⟨hcz, -⟩
      exact rtok_pure ⟨rz, cz, rfl, hcz⟩
    · rintro y ⟨rz, cz, rfl, hcz⟩
      cases rz with
      | some e =>
        obtain ⟨k, v⟩ := e
        refine rtok_pure ⟨hfile, hI, ?_⟩
        intro c0 hc0
        simp only [Option.some.injEq] at hc0
        subst hc0
        exact hcz
      | none =>
        simp only
        refine rtok_bind (rt_rc_next_block hs hB hlv hroot _ hfile hI) ?_
        rintro ⟨rb, s1⟩ ⟨g1, g2, g3, g4⟩
        simp only at g1 g2 g3 g4
        cases rb with
        | none =>
          simp only [optMapM, pure, Except.pure, ok_bind]
          refine rtok_ok ⟨g3, g1, ?_⟩
          intro c0 hc0
          rw [g2] at hc0
          simp only [Option.some.injEq] at hc0
          subst hc0
          exact hcz
        | some blk =>
          have hnc := g4 blk rfl
          simp only [optMapM, bind, pure, Gen.Block.into_cursor, Gen.BlockCursor.new, Except.pure, ok_bind,
            Option.getD_some]
          refine rtok_bind (rt_move hnc .first) ?_
          rintro ⟨rw_, cw⟩ ⟨hcw, -⟩
          refine rtok_ok ⟨g3, g1, ?_⟩
          intro c0 hc0
          simp only [Option.some.injEq] at hc0
          subst hc0
          exact hcw

theorem rt_rc_prev (st : Gen.ReaderCursor) (hst : RTState file iv log s root levels st) :
    RTOk (Gen.ReaderCursor.move_on_prev (fun _ => cd.decompress) st) (RTPost file iv log s root levels) := by
  unfold Gen.ReaderCursor.move_on_prev
  simp only [bind, pure]
  cases hcur : st.current_cursor with
  | none =>
    simp only [optMapMut, pure, Except.pure, ok_bind]
    have hse : ({ index_block_cursor := st.index_block_cursor, current_cursor := none, reader := st.reader } :
        Gen.ReaderCursor) = st := by rw [← hcur]
    rw [hse]
    refine rtok_bind (rt_rc_last hs hB hlv hroot st hst) ?_
    rintro ⟨r, st'⟩ h
    exact rtok_ok h
  | some c =>
    obtain ⟨hfile, hI, hc⟩ := hst
    simp only [optMapMut, bind, pure]
    refine rtok_bind (rtok_bind (rt_move (hc c hcur) .prev) (Q := fun y => ∃ rz cz, y = (some rz, some cz) ∧
      RTCur iv log (RTG s 0) cz) ?_) ?_
    · rintro ⟨rz, cz⟩ ⟨hcz, -⟩
      exact rtok_pure ⟨rz, cz, rfl, hcz⟩
    · rintro y ⟨rz, cz, rfl, hcz⟩
      cases rz with
      | some e =>
        obtain ⟨k, v⟩ := e
        refine rtok_pure ⟨hfile, hI, ?_⟩
        intro c0 hc0
        simp only [Option.some.injEq] at hc0
        subst hc0
        exact hcz
      | none =>
        simp only
        refine rtok_bind (rt_rc_prev_block hs hB hlv hroot _ hfile hI) ?_
        rintro ⟨rb, s1⟩ ⟨g1, g2, g3, g4⟩
        simp only at g1 g2 g3 g4
        cases rb with
        | none =>
          simp only [optMapM, pure, Except.pure, ok_bind]
          refine rtok_ok ⟨g3, g1, ?_⟩
          intro c0 hc0
          rw [g2] at hc0
          simp only [Option.some.injEq] at hc0
          subst hc0
          exact hcz
        | some blk =>
          have hnc := g4 blk rfl
          simp only [optMapM, bind, pure, Gen.Block.into_cursor, Gen.BlockCursor.new, Except.pure, ok_bind,
            Option.getD_some]
          refine rtok_bind (rt_move hnc .last) ?_
          rintro ⟨rw_, cw⟩ ⟨hcw, -⟩
          refine rtok_ok ⟨g3, g1, ?_⟩
          intro c0 hc0
          simp only [Option.some.injEq] at hc0
          subst hc0
          exact hcw

theorem rt_rc_le (st : Gen.ReaderCursor) (hst : RTState file iv log s root levels st) (key : Bytes) :
    RTOk (Gen.ReaderCursor.move_on_key_lower_than_or_equal_to (fun _ => cd.decompress) st key)
      (RTPost file iv log s root levels) := by
  unfold Gen.ReaderCursor.move_on_key_lower_than_or_equal_to
  simp only [bind, pure]
  refine rtok_bind (rt_rc_ge hs hB hlv hroot st hst key) ?_
  rintro ⟨r1, s1⟩ h1
  cases r1 with
  | none =>
    simp only
    refine rtok_bind (rt_rc_last hs hB hlv hroot s1 h1) ?_
    rintro ⟨r2, s2⟩ h2
    exact rtok_pure h2
  | some e =>
    obtain ⟨k, v⟩ := e
    simp only
    by_cases hk : (k == key) = true
    · simp only [hk, if_true]
      exact rtok_pure h1
    · simp only [hk, if_false]
      refine rtok_bind (rt_rc_prev hs hB hlv hroot s1 h1) ?_
      rintro ⟨r2, s2⟩ h2
      exact rtok_pure h2

theorem rt_rc_eq (st : Gen.ReaderCursor) (hst : RTState file iv log s root levels st) (key : Bytes) :
    RTOk (Gen.ReaderCursor.move_on_key_equal_to (fun _ => cd.decompress) st key)
      (RTPost file iv log s root levels) := by
  unfold Gen.ReaderCursor.move_on_key_equal_to
  simp only [bind, pure]
  refine rtok_bind (rt_rc_ge hs hB hlv hroot st hst key) ?_
  rintro ⟨r1, s1⟩ h1
  exact rtok_pure h1

omit hs hB hlv hroot in
theorem rt_rc_current (st : Gen.ReaderCursor) (hst : RTState file iv log s root levels st) :
    RTOk (Gen.ReaderCursor.current st) fun _ => True := by
  unfold Gen.ReaderCursor.current
  cases hcur : st.current_cursor with
  | none => exact ⟨none, rfl, trivial⟩
  | some c =>
    simp only [optBindM]
    exact rtok_mono (rt_current (hst.2.2 c hcur)) fun _ _ => trivial

omit hs hB hlv hroot in
theorem rt_rc_reset (st : Gen.ReaderCursor) (hst : RTState file iv log s root levels st) :
    RTOk (Gen.ReaderCursor.reset st) (RTState file iv log s root levels) := by
  obtain ⟨hfile, ⟨hb, hl, hin⟩, hc⟩ := hst
  unfold Gen.ReaderCursor.reset Gen.IndexBlockCursor.reset
  simp only [bind, pure, Except.pure, ok_bind]
  exact rtok_ok ⟨hfile, ⟨hb, hl, fun l hl' => by cases hl'⟩, fun c hc' => by cases hc'⟩

/-- **One call returns** and re-establishes the invariant. -/
theorem rt_rc_step (st : Gen.ReaderCursor) (hst : RTState file iv log s root levels st) (op : Op) :
    RTOk (genRcStep cd st op) (RTPost file iv log s root levels) := by
  cases op with
  | first => exact rt_rc_first hs hB hlv hroot st hst
  | last => exact rt_rc_last hs hB hlv hroot st hst
  | next => exact rt_rc_next hs hB hlv hroot st hst
  | prev => exact rt_rc_prev hs hB hlv hroot st hst
  | ge q => exact rt_rc_ge hs hB hlv hroot st hst q
  | le q => exact rt_rc_le hs hB hlv hroot st hst q
  | eq q => exact rt_rc_eq hs hB hlv hroot st hst q
  | reset =>
    simp only [genRcStep]
    refine rtok_bind (rt_rc_reset st hst) ?_
    intro s' hs'
    exact rtok_pure hs'
  | current =>
    simp only [genRcStep]
    refine rtok_bind (rt_rc_current st hst) ?_
    intro r _
    exact rtok_pure hst

/-- **Every history returns.** -/
theorem rt_rc_run : ∀ (hist : List Op) (st : Gen.ReaderCursor), RTState file iv log s root levels st →
    RTOk (genRcRun cd st hist) fun x => RTState file iv log s root levels x.2
  | [], st, hst => rtok_pure hst
  | op :: rest, st, hst => by
    simp only [genRcRun]
    refine rtok_bind (rt_rc_step hs hB hlv hroot st hst op) ?_
    rintro ⟨r, s1⟩ h1
    refine rtok_bind (rt_rc_run rest s1 h1) ?_
    rintro ⟨rs, s2⟩ h2
    exact rtok_pure h2

end

/-! ### on the files of an `Assembly.Setting` -/

section
variable {cd : Codec} {cfg : WCfg} {es : List Entry} {file : Bytes} {log : List Emitted} {m : Meta.Meta}

/-- a generated cursor abstracting to the freshly opened model cursor satisfies the invariant -/
theorem rt_state_open (S : Setting cd cfg es file log) (hm : Meta.parse file = .ok m)
    (s0 : Gen.ReaderCursor) (hg : GoodRC (fun _ => True) file s0) (h0 : toRCfull s0 [] = RC.new m) :
    RTState file cfg.interval log (storeOf log) m.root cfg.levels s0 ∧ cfg.levels ≤ 255 ∧
      RTPt (storeOf log) (cfg.levels + 1) m.root := by
  obtain ⟨root, hok, hparse⟩ := S.fileOK
  rw [hm] at hparse
  cases hparse
  obtain ⟨hfile, -, -, -⟩ := hg
  have hb : s0.index_block_cursor.base_block_offset = root := congrArg RC.base h0
  have hl : s0.index_block_cursor.index_levels = cfg.levels := congrArg RC.levels h0
  have hin : s0.index_block_cursor.inner = none := by
    have := congrArg RC.inner h0
    simp only [toRCfull, toRC, RC.new] at this
    cases hi : s0.index_block_cursor.inner with
    | none => rfl
    | some l => rw [hi] at this; cases this
  have hcu : s0.current_cursor = none := by
    have := congrArg RC.cur h0
    simp only [toRCfull, toRC, RC.new] at this
    cases hi : s0.current_cursor with
    | none => rfl
    | some l => rw [hi] at this; cases this
  refine ⟨⟨hfile, ⟨hb, hl, ?_⟩, ?_⟩, S.H.levels, rtpt_root hok⟩
  · intro l hl'; rw [hin] at hl'; cases hl'
  · intro c hc; rw [hcu] at hc; cases hc

/-- **Total correctness of the regenerated reader cursor on written files.**  On a file the writer produced, from a
    generated cursor that abstracts to the freshly opened cursor, EVERY finite list of public cursor calls run
    through the generated functions returns `.ok`: no panic (checked arithmetic, slicing, `unwrap`, recursion fuel,
    loop fuel) and no `Err`. -/
theorem src_reader_total (S : Setting cd cfg es file log) (hm : Meta.parse file = .ok m)
    (hs : SmallBlocks cd file) (s0 : Gen.ReaderCursor) (hg : GoodRC (fun _ => True) file s0)
    (h0 : toRCfull s0 [] = RC.new m) (hist : List Op) :
    ∃ rs s', genRcRun cd s0 hist = .ok (rs, s') := by
  obtain ⟨hst, hlv, hroot⟩ := rt_state_open S hm s0 hg h0
  obtain ⟨⟨rs, s'⟩, h, -⟩ := rt_rc_run hs S.byteSim hlv hroot hist s0 hst
  exact ⟨rs, s', h⟩

/-- **C01/C03 on the regenerated reader cursor, every history, unconditionally.**  Every history of generated calls
    returns, with as many results as calls, and every result agrees with the specification cursor over the inserted
    entries wherever the latter determines the result. -/
theorem src_C03_history_total (S : Setting cd cfg es file log) (hm : Meta.parse file = .ok m)
    (hs : SmallBlocks cd file) (s0 : Gen.ReaderCursor) (hg : GoodRC (fun _ => True) file s0)
    (h0 : toRCfull s0 [] = RC.new m) (hist : List Op) :
    ∃ rs s', genRcRun cd s0 hist = .ok (rs, s') ∧ rs.length = hist.length ∧
      ∀ x ∈ (rs.map Res.ok).zip (e2eSpecRun es .fresh hist), Spec.Agree x.1 x.2 := by
  obtain ⟨rs, s', h⟩ := src_reader_total S hm hs s0 hg h0 hist
  obtain ⟨h1, h2⟩ := src_C03_history S hm hs s0 hg h0 hist rs s' h
  exact ⟨rs, s', h, h1, h2⟩

/-- **End to end from `Reader::new`, unconditionally.**  On a written file `Reader::new(Cursor::new(file))` and
    `into_cursor()` return, and then every list of public cursor calls on the regenerated code returns, with results
    agreeing with the specification cursor over the entries that were inserted. -/
theorem src_C03_history_open_total (S : Setting cd cfg es file log) (hs : SmallBlocks cd file) (pos : Nat)
    (hist : List Op) :
    ∃ rdr s0 rs s', Gen.Reader.new { bytes := file, pos := pos } = .ok rdr ∧
      Gen.Reader.into_cursor rdr = .ok s0 ∧ genRcRun cd s0 hist = .ok (rs, s') ∧
      rs.length = hist.length ∧
      (∀ x ∈ (rs.map Res.ok).zip (e2eSpecRun es .fresh hist), Spec.Agree x.1 x.2) ∧
      rdr.metadata.entries_count = es.length := by
  obtain ⟨rdr, s0, hopen, hcur, -⟩ := e2e_open_ok S pos
  obtain ⟨hparse, -⟩ := e2e_reader_new file pos rdr hopen
  obtain ⟨hg, h0, -⟩ := e2e_open_cursor file pos _ hparse (e2e_setting_levels_le S hparse) rdr s0 hopen hcur
  obtain ⟨rs, s', h⟩ := src_reader_total S hparse hs s0 hg h0 hist
  obtain ⟨h1, h2, h3⟩ := src_C03_history_open S hs pos rdr s0 hopen hcur hist rs s' h
  exact ⟨rdr, s0, rs, s', hopen, hcur, h, h1, h2, h3⟩

/-- In particular every single call after any history returns, with the result the specification determines. -/
theorem src_C03_step_total (S : Setting cd cfg es file log) (hm : Meta.parse file = .ok m)
    (hs : SmallBlocks cd file) (s0 : Gen.ReaderCursor) (hg : GoodRC (fun _ => True) file s0)
    (h0 : toRCfull s0 [] = RC.new m) (hist : List Op) (op : Op) :
    ∃ rs s1 r s2, genRcRun cd s0 hist = .ok (rs, s1) ∧ genRcStep cd s1 op = .ok (r, s2) ∧
      Spec.Agree (.ok r) (Spec.step es (posAfter es .fresh hist) op).2 := by
  obtain ⟨hst, hlv, hroot⟩ := rt_state_open S hm s0 hg h0
  obtain ⟨⟨rs, s1⟩, h, hst1⟩ := rt_rc_run hs S.byteSim hlv hroot hist s0 hst
  obtain ⟨⟨r, s2⟩, h2, -⟩ := rt_rc_step hs S.byteSim hlv hroot s1 hst1 op
  exact ⟨rs, s1, r, s2, h, h2, src_C03_step S hm hs s0 hg h0 hist rs s1 h op r s2 h2⟩

end

end Grenad.SrcTie

section Audit
open Grenad.SrcTie
#print axioms rt_rc_step
#print axioms rt_rc_run
#print axioms src_reader_total
#print axioms src_C03_history_total
#print axioms src_C03_history_open_total
#print axioms src_C03_step_total
end Audit
