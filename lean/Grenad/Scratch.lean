import Grenad.Generated.Prelude
import Grenad.Model.Varint
namespace Grenad.Gen
open Grenad.R

def varint_length_packed (data : List UInt8) : M Nat := do
  let mut i : Nat := 0
  for _ in List.range (data.length - 0) do
    if (((← idx data i).toNat &&& 0x80) == 0) then
      break
    i ← add 64 i 1
  if (i == data.length) then
    return 0
  else
    return (← add 32 (cast 32 i) 1)

def varint_encode32 (bytes : List UInt8) (value : Nat) : M (List UInt8 × List UInt8) := do
  let mut bytes := bytes
  let b : Nat := 128
  if (value < (← shl 32 1 7)) then
    bytes ← setIdx bytes 0 (UInt8.ofNat (cast 8 value))
    return ((← sliceTo bytes 1), bytes)
  else if (value < (← shl 32 1 14)) then
    bytes ← setIdx bytes 0 (UInt8.ofNat (cast 8 (value ||| b)))
    bytes ← setIdx bytes 1 (UInt8.ofNat (cast 8 (← shr 32 value 7)))
    return ((← sliceTo bytes 2), bytes)
  else
    bytes ← setIdx bytes 0 (UInt8.ofNat (cast 8 (value ||| b)))
    bytes ← setIdx bytes 1 (UInt8.ofNat (cast 8 ((← shr 32 value 7) ||| b)))
    bytes ← setIdx bytes 2 (UInt8.ofNat (cast 8 (← shr 32 value 14)))
    return ((← sliceTo bytes 3), bytes)

end Grenad.Gen
open Grenad Grenad.R Grenad.Gen

theorem or128 (x : Nat) : (x ||| 128) % 256 = x % 128 + 128 := by
  have h : ∀ y : Fin 256, (y.val ||| 128) % 256 = y.val % 128 + 128 := by decide
  have := h ⟨x % 256, Nat.mod_lt _ (by decide)⟩
  simp only at this
  rw [show (256:Nat) = 2^8 from rfl, Nat.or_mod_two_pow] 
  simp at this ⊢
  omega

example (bs : List UInt8) (v : Nat) (hb : 10 ≤ bs.length) (hv : v < 2^14) (h7 : ¬ v < 2^7):
   (varint_encode32 bs v).map Prod.fst = .ok (Varint.encode32 v) := by
  obtain ⟨b0, b1, b2, rest, rfl⟩ : ∃ b0 b1 b2 rest, bs = b0 :: b1 :: b2 :: rest := by
    match bs, hb with
    | b0 :: b1 :: b2 :: rest, _ => exact ⟨_,_,_,_,rfl⟩
  simp [varint_encode32, Varint.encode32, shl, shr, setIdx, sliceTo, cast, bind, Except.bind, pure, Except.pure, Except.map, hv, h7, or128, Nat.shiftRight_eq_div_pow]
  omega
