/-
  Falsifiable — the property statements are not vacuous: realistic WRONG variants of the modelled
  algorithms violate them on concrete inputs.

  Same style as `Grenad.Props.C03.C03_counterexample_pinned` (the reader cursor before the repair
  of finding F1).  Every item defines the wrong variant as a small standalone definition — a copy
  of the model function with ONE change, marked `-- CHANGED` — and a theorem proved by evaluation
  (`decide` / `decide +kernel` / `rfl`) states, on a concrete input,
    * the value the property demands (and, where cheap, that the unchanged model delivers it), and
    * the different value the wrong variant delivers.
  Nothing in `Grenad/Model` is touched and nothing here is used by any other module.
-/
import Grenad.Props.C03
import Grenad.Props.C05
import Grenad.Props.C06
import Grenad.Props.C07
import Grenad.Props.C08
import Grenad.Props.C14
import Grenad.Props.C15
import Grenad.Props.C18

namespace Grenad.Props.Falsifiable

open Grenad

/-! ## 1. C14 — framing boundary off by one -/

/-- `Varint.encode32` with `v ≤ 2^21` instead of `v < 2^21` in the third branch: the length
    `2^21` is written in the 3-byte form, whose last byte `2^21 / 2^14 = 128` carries the
    continuation bit. -/
def encode32' (v : Nat) : Bytes :=
  if v < 2^7 then
    [UInt8.ofNat v]
  else if v < 2^14 then
    [UInt8.ofNat (v % 128 + 128), UInt8.ofNat (v / 2^7)]
  else if v ≤ 2^21 then                                                        -- CHANGED (`<`)
    [UInt8.ofNat (v % 128 + 128), UInt8.ofNat (v / 2^7 % 128 + 128), UInt8.ofNat (v / 2^14)]
  else if v < 2^28 then
    [UInt8.ofNat (v % 128 + 128), UInt8.ofNat (v / 2^7 % 128 + 128),
     UInt8.ofNat (v / 2^14 % 128 + 128), UInt8.ofNat (v / 2^21)]
  else
    [UInt8.ofNat (v % 128 + 128), UInt8.ofNat (v / 2^7 % 128 + 128),
     UInt8.ofNat (v / 2^14 % 128 + 128), UInt8.ofNat (v / 2^21 % 128 + 128),
     UInt8.ofNat (v / 2^28)]

/-- The variant differs from the model at `2^21` only by the width chosen. -/
theorem encode32'_boundary :
    Varint.encode32 (2^21) = [128, 128, 128, 1] ∧ encode32' (2^21) = [128, 128, 128] := by
  decide

/-- **C14 is falsifiable** (`C14_roundtrip`: `decode32 (encode32 v ++ rest) = some (v, |encode32 v|)`).
    Wrong variant: `encode32'` (boundary test `≤ 2^21`).  For `v = 2^21` followed by the byte `7`
    the model's encoding decodes to `(2^21, 4)`; the variant's three bytes all carry the
    continuation bit, so the decoder swallows the following byte and answers `(7·2^21, 4)` —
    neither the value nor the width (3) that was written. -/
theorem C14_falsifiable :
    Varint.decode32 (Varint.encode32 (2^21) ++ [7]) = some (2^21, (Varint.encode32 (2^21)).length) ∧
    Varint.decode32 (encode32' (2^21) ++ [7]) = some (7 * 2^21, 4) ∧
    Varint.decode32 (encode32' (2^21) ++ [7]) ≠ some (2^21, (encode32' (2^21)).length) := by
  decide

/-- With nothing after it, the variant's encoding of `2^21` is not even terminated: the decoder
    reports value 0 and width 0. -/
theorem C14_falsifiable_unterminated :
    Varint.decode32 (encode32' (2^21)) = some (0, 0) ∧
    Varint.decode32 (Varint.encode32 (2^21)) = some (2^21, 4) := by
  decide

/-- Away from the changed boundary the variant is the model (so only a statement that covers
    `v = 2^21` can tell them apart). -/
theorem encode32'_eq (v : Nat) (h : v ≠ 2^21) : encode32' v = Varint.encode32 v := by
  unfold encode32' Varint.encode32
  have : (v ≤ 2^21) = (v < 2^21) := propext ⟨fun h' => by omega, fun h' => by omega⟩
  simp only [this]

/-! ## 2. C05 — `advance_key` truncating at the first 0xFF byte -/

/-- `advanceKey` that cuts the prefix at its FIRST `0xFF` byte (and increments what is before it)
    instead of stripping only the TRAILING `0xFF` bytes. -/
def advanceKey' (p : Bytes) : Option Bytes :=
  (advanceRev (p.takeWhile (· ≠ 255)).reverse).map List.reverse                -- CHANGED

section
variable {γ : Type} (adv : Bytes → Option Bytes) (step : γ → Op → γ × Res)

/-- `moveOnLastPrefix` with the advance function as a parameter. -/
def moveOnLastPrefix' (c : γ) (p : Bytes) : γ × Res :=
  match adv p with
  | some np =>
    match step c (.le np) with
    | (c, .err) => (c, .err)
    | (c, .ok (some (k, _))) => if k = np then step c .prev else step c .current
    | (c, .ok none) => step c .current
  | none => step c .last

/-- `PrefixIter.nextRev` with the advance function as a parameter. -/
def nextRev' (it : PrefixIter γ) : PrefixIter γ × Res :=
  let (c, r) := if it.start then moveOnLastPrefix' adv step it.cursor it.pre else step it.cursor .prev
  let it' := { it with cursor := c, start := false }
  match r with
  | .err => (it', .err)
  | .ok (some (k, v)) => if it.pre.isPrefixOf k then (it', .ok (some (k, v))) else (it', .ok none)
  | .ok none => (it', .ok none)

end

/-- Instantiated with the model's `advanceKey` the parametrised copies ARE the model's functions. -/
theorem nextRev'_advanceKey {γ : Type} (step : γ → Op → γ × Res) :
    nextRev' advanceKey step = PrefixIter.nextRev step := rfl

/-- Four strictly ascending entries; two of them start with `01 FF 03`. -/
def esP : List Entry :=
  [([1, 255, 3], [10]), ([1, 255, 3, 5], [20]), ([1, 255, 9], [30]), ([3], [40])]

theorem esP_asc : StrictAsc esP := by unfold StrictAsc esP; decide

/-- **C05 is falsifiable** (`C05_prefix_rev`: the backward prefix iterator over the specification
    cursor collects `(Spec.withPrefix es p).reverse`).  Wrong variant: `advanceKey'`.  For the
    prefix `01 FF 03` the model computes the bound `01 FF 04` and returns both matching entries,
    last first; the variant computes `02`, the floor seek lands on `01 FF 09` — which does not
    start with the prefix — and the iteration ends at once: both entries are missed. -/
theorem C05_falsifiable :
    advanceKey [1, 255, 3] = some [1, 255, 4] ∧ advanceKey' [1, 255, 3] = some [2] ∧
    (Spec.withPrefix esP [1, 255, 3]).reverse = [([1, 255, 3, 5], [20]), ([1, 255, 3], [10])] ∧
    collect (PrefixIter.nextRev (Spec.stepTotal esP)) 5 { cursor := .fresh, pre := [1, 255, 3] } []
      = some [([1, 255, 3, 5], [20]), ([1, 255, 3], [10])] ∧
    collect (nextRev' advanceKey' (Spec.stepTotal esP)) 5 { cursor := .fresh, pre := [1, 255, 3] } []
      = some [] := by
  decide

/-- The same in the form of the negated conclusion of `C05_prefix_rev` (whose hypotheses
    `StrictAsc esP` and `fuel > esP.length` hold). -/
theorem C05_falsifiable' :
    StrictAsc esP ∧ 5 > esP.length ∧
    collect (nextRev' advanceKey' (Spec.stepTotal esP)) 5 { cursor := .fresh, pre := [1, 255, 3] } []
      ≠ some (Spec.withPrefix esP [1, 255, 3]).reverse :=
  ⟨esP_asc, by decide, by decide⟩

/-- `C05_advanceKey_spec` itself fails for the variant: `01 FF 09` lies in `[p, advanceKey' p)` but
    does not start with `p`. -/
theorem C05_advanceKey_falsifiable :
    ¬ (([1, 255, 3] : Bytes).isPrefixOf [1, 255, 9] = true ↔
        (([1, 255, 3] : Bytes) ≤ [1, 255, 9] ∧ ([1, 255, 9] : Bytes) < [2])) := by
  decide

/-! ## 3. C06 — heap order ignoring the source index -/

/-- `MSrc.before` comparing keys only: the tie-break on the source index is dropped. -/
def before' (a b : MSrc) : Bool := decide (a.key < b.key)                      -- CHANGED

/-- `heapMin` over `before'`: among equal keys the LAST one of the list pops first. -/
def heapMin' : List MSrc → Option MSrc
  | [] => none
  | s :: rest =>
    match heapMin' rest with
    | none => some s
    | some m => if before' s m then some s else some m

def heapPop' (h : List MSrc) : Option (MSrc × List MSrc) :=
  match heapMin' h with
  | none => none
  | some m => some (m, h.erase m)

def popSame' (key : Bytes) : Nat → List MSrc → List MSrc → List MSrc × List MSrc
  | 0, h, acc => (acc.reverse, h)
  | fuel+1, h, acc =>
    match heapPop' h with
    | some (m, h') => if m.key = key then popSame' key fuel h' (m :: acc) else (acc.reverse, h)
    | none => (acc.reverse, h)

/-- `Merger.next` over the index-blind heap. -/
def mergerNext' (mf : MergeFn) (m : Merger) : Merger × Merger.MRes :=
  match heapPop' m.heap with
  | none => (m, .ok none)
  | some (first, h) =>
    let (same, h) := popSame' first.key (h.length + 1) h []
    let vals := first.val :: same.map MSrc.val
    let calls := (first.key, vals) :: m.calls
    match mf first.key vals with
    | none => ({ m with heap := h, calls := calls }, .mergeErr)
    | some merged =>
      let h := (first :: same).foldl advance h
      ({ heap := h, calls := calls }, .ok (some (first.key, merged)))

def mergerCollect' (mf : MergeFn) : Nat → Merger → List Entry → Option (List Entry) × Merger
  | 0, m, acc => (some acc.reverse, m)
  | fuel+1, m, acc =>
    match mergerNext' mf m with
    | (m', .ok none) => (some acc.reverse, m')
    | (m', .ok (some e)) => mergerCollect' mf fuel m' (e :: acc)
    | (m', .mergeErr) => (none, m')

def mergerRun' (mf : MergeFn) (sources : List (List Entry)) : Option (List Entry) × Merger :=
  mergerCollect' mf (Merger.totalLen sources + 1) (Merger.start sources) []

/-- Concatenation of the values: sensitive to their order. -/
def concat : Bytes → List Bytes → Bytes := fun _ vs => vs.flatten

/-- Three strictly ascending sources sharing the key `01`; key `02` is in the last two. -/
def srcs : List (List Entry) :=
  [[([1], [10])], [([1], [20]), ([2], [21])], [([1], [30]), ([2], [31]), ([3], [32])]]

theorem srcs_asc : ∀ s ∈ srcs, StrictAsc s := by unfold srcs StrictAsc; decide

/-- **C06 is falsifiable** (`C06_merge`: `(run (total mf') sources).1 = some (mergeSpec mf' sources)`,
    and `C06_calls`: values are handed to the merge function in the order the sources were added).
    Wrong variant: `before'` / `heapMin'` (ties between equal keys are not broken by the source
    index).  The specification and the model merge the values of key `01` as `10 20 30`; the
    variant hands them over as `30 20 10`. -/
theorem C06_falsifiable :
    Spec.mergeSpec concat srcs = [([1], [10, 20, 30]), ([2], [21, 31]), ([3], [32])] ∧
    (Merger.run (C06.total concat) srcs).1 = some [([1], [10, 20, 30]), ([2], [21, 31]), ([3], [32])] ∧
    (mergerRun' (C06.total concat) srcs).1 = some [([1], [30, 20, 10]), ([2], [31, 21]), ([3], [32])] ∧
    (mergerRun' (C06.total concat) srcs).2.calls.reverse =
      [([1], [[30], [20], [10]]), ([2], [[31], [21]]), ([3], [[32]])] ∧
    Spec.group srcs.flatten = [([1], [[10], [20], [30]]), ([2], [[21], [31]]), ([3], [[32]])] := by
  decide

/-- Negated conclusion of `C06_merge` for the variant (hypothesis `srcs_asc` holds). -/
theorem C06_falsifiable' :
    (mergerRun' (C06.total concat) srcs).1 ≠ some (Spec.mergeSpec concat srcs) := by
  decide

/-! ## 4. C15 — index blocks cut one entry late -/

/-- `W.cutLevels` with the cut test `>` instead of `≥`: an index block whose size estimate is
    exactly the block size is left pending. -/
def cutLevels' (cd : Codec) (bs : Nat) : Nat → List BW → Bytes → List Emitted →
    Except Trap (List BW × Bytes × List Emitted)
  | 0, idx, out, log => .ok (idx, out, log)
  | i+1, idx, out, log =>
    if i + 1 < 2 then .ok (idx, out, log) else
    match idx[i+1]?, idx[i]? with
    | some cur, some parent =>
      if cur.sizeEstimate > bs then                                            -- CHANGED (`≥`)
        match cur.lastKey with
        | some lk =>
          match parent.insert lk (be64 out.length) with
          | .error t => .error t
          | .ok parent' =>
            let raw := cur.finish
            let idx' := (idx.set i parent').set (i+1) cur.reset
            cutLevels' cd bs i idx' (out ++ W.blockBytes cd raw)
              (log ++ [{ offset := out.length, level := idx.length - (i+1), raw := raw, items := cur.items }])
        | none => cutLevels' cd bs i idx out log
      else cutLevels' cd bs i idx out log
    | _, _ => .ok (idx, out, log)

/-- `W.insert` calling `cutLevels'` (otherwise unchanged). -/
def wInsert' (cd : Codec) (w : W) (k v : Bytes) : Except Trap W :=
  match w.bw.insert k v with
  | .error t => .error t
  | .ok bw =>
    let w := { w with bw := bw, count := w.count + 1 }
    let bs := w.cfg.clamped
    if bw.sizeEstimate ≥ bs then
      match bw.lastKey with
      | some lk =>
        let n := w.idx.length
        match w.idx[n - 1]? with
        | some lastIdx =>
          match lastIdx.insert lk (be64 w.out.length) with
          | .error t => .error t
          | .ok lastIdx' =>
            let raw := bw.finish
            let out := w.out ++ W.blockBytes cd raw
            let log := w.log ++ [{ offset := w.out.length, level := 0, raw := raw, items := bw.items }]
            let idx := w.idx.set (n - 1) lastIdx'
            match cutLevels' cd bs (n - 1) idx out log with                    -- CHANGED (callee)
            | .error t => .error t
            | .ok (idx, out, log) => .ok { w with bw := bw.reset, idx := idx, out := out, log := log }
        | none => .ok w
      | none => .ok w
    else .ok w

/-- `W.run.go` over `wInsert'`. -/
def wGo' (cd : Codec) (w : W) : List Entry → Except Trap W
  | [] => .ok w
  | (k, v) :: rest => match wInsert' cd w k v with
    | .error t => .error t
    | .ok w' => wGo' cd w' rest

/-- Block size `B = 36`, offset-table interval 2, 3 index levels (index writers at list positions
    0..3; positions 2 and 3 are subject to cutting).  An index block holding two 12-byte entries
    has size estimate `24 + 8 + 4 = 36 = B`. -/
def cfgB : WCfg := { blockSize := 0, minBlock := 36, interval := 2, levels := 3 }

/-- Per pending index writer (root first): number of entries held and size estimate; and per
    emitted block: level, number of entries, raw length. -/
def wSumm (r : Except Trap W) : Option (List (Nat × Nat) × List (Nat × Nat × Nat)) :=
  match r with
  | .ok w => some (w.idx.map (fun b => (b.items.length, b.sizeEstimate)),
                   w.log.map (fun e => (e.level, e.items.length, e.raw.length)))
  | .error _ => none

/-- **C15 is falsifiable** (`C15_pending`: after any number of inserts every index writer at a list
    position `≥ 2` is empty or below `B`).  Wrong variant: `cutLevels'` (cut test `>`).  After six
    entries (two data blocks emitted) the model has cut the last index writer — it is empty again
    (estimate 12) and its 36-byte block is in the log; the variant leaves it pending with two
    entries and a size estimate of exactly `B = 36`. -/
theorem C15_falsifiable_pending :
    cfgB.clamped = 36 ∧
    wSumm (W.run.go Codec.none (W.new cfgB) (C15.kvs 6)) =
      some ([(0, 12), (0, 12), (1, 24), (0, 12)], [(0, 3, 44), (0, 3, 44), (1, 2, 36)]) ∧
    wSumm (wGo' Codec.none (W.new cfgB) (C15.kvs 6)) =
      some ([(0, 12), (0, 12), (0, 12), (2, 36)], [(0, 3, 44), (0, 3, 44)]) := by
  decide +kernel

/-- Negated conclusion of `C15_pending` for the variant, literally: the writer at list position 3
    is non-empty and not below `B`. -/
theorem C15_falsifiable_pending' :
    ∃ w, wGo' Codec.none (W.new cfgB) (C15.kvs 6) = .ok w ∧
      ¬ ∀ j b, w.idx[j]? = some b → 2 ≤ j → (b.items = [] ∨ b.sizeEstimate < cfgB.clamped) := by
  have hw : (match wGo' Codec.none (W.new cfgB) (C15.kvs 6) with
      | .ok w => w.idx[3]?.map (fun b => (b.items.length, b.sizeEstimate))
      | .error _ => none) = some (2, 36) := by decide +kernel
  cases h : wGo' Codec.none (W.new cfgB) (C15.kvs 6) with
  | error t => rw [h] at hw; cases hw
  | ok w =>
    rw [h] at hw
    dsimp only at hw
    refine ⟨w, rfl, fun hall => ?_⟩
    cases hb : w.idx[3]? with
    | none => rw [hb] at hw; cases hw
    | some b =>
      rw [hb] at hw
      simp only [Option.map_some, Option.some.injEq, Prod.mk.injEq] at hw
      rcases hall 3 b hb (by decide) with h0 | h0
      · rw [h0] at hw; exact absurd hw.1 (by decide)
      · rw [hw.2] at h0; exact absurd h0 (by decide)

/-- **C15 is falsifiable** (`C15_cut` / `C15_bound_strict`: a block on a cuttable level was below
    `B` before its final entry went in, hence is at most `(B - 1) + |frame of the final entry| + 8`
    bytes long).  Wrong variant: `cutLevels'`.  After nine entries the model has emitted a level-1
    index block of 2 entries and 36 bytes; the variant emits one of 3 entries and 56 bytes — without
    its final entry (a 12-byte frame, plus the 8-byte offset slot that came with it) it was 36 = `B`
    bytes, not below `B`, and `56 > (36 - 1) + 12 + 8`. -/
theorem C15_falsifiable_bound :
    wSumm (W.run.go Codec.none (W.new cfgB) (C15.kvs 9)) =
      some ([(0, 12), (0, 12), (1, 24), (1, 24)], [(0, 3, 44), (0, 3, 44), (1, 2, 36), (0, 3, 44)]) ∧
    wSumm (wGo' Codec.none (W.new cfgB) (C15.kvs 9)) =
      some ([(0, 12), (0, 12), (1, 24), (0, 12)], [(0, 3, 44), (0, 3, 44), (0, 3, 44), (1, 3, 56)]) ∧
    (BW.frame (C15.key 8) (be64 104)).length = 12 ∧
    ¬ (56 ≤ (cfgB.clamped - 1) + (BW.frame (C15.key 8) (be64 104)).length + 8) := by
  decide +kernel

/-- The block in question, with its entries: negation of the conclusion of `C15_bound_strict` for
    the (cuttable) level-1 block the variant emits. -/
theorem C15_falsifiable_bound' :
    ∃ w e, wGo' Codec.none (W.new cfgB) (C15.kvs 9) = .ok w ∧ e ∈ w.log ∧ C15.Cuttable cfgB e ∧
      12 < cfgB.clamped ∧
      ¬ ∃ ini last, e.items = ini ++ [last] ∧
          e.raw.length ≤ (cfgB.clamped - 1) + (frameOf last).length + 8 := by
  have hw : (match wGo' Codec.none (W.new cfgB) (C15.kvs 9) with
      | .ok w => w.log[3]?.map (fun e => (e.level, e.items, e.raw.length))
      | .error _ => none) =
      some (1, [(C15.key 2, be64 0), (C15.key 5, be64 52), (C15.key 8, be64 104)], 56) := by
    decide +kernel
  cases h : wGo' Codec.none (W.new cfgB) (C15.kvs 9) with
  | error t => rw [h] at hw; cases hw
  | ok w =>
    rw [h] at hw
    dsimp only at hw
    cases he : w.log[3]? with
    | none => rw [he] at hw; cases hw
    | some e =>
      rw [he] at hw
      simp only [Option.map_some, Option.some.injEq, Prod.mk.injEq] at hw
      obtain ⟨h1, h2, h3⟩ := hw
      refine ⟨w, e, rfl, List.mem_of_getElem? he, .inr ⟨by omega, by rw [h1]; decide⟩, by decide, ?_⟩
      rintro ⟨ini, last, hi, hl⟩
      rw [h2] at hi
      have hlast : last = (C15.key 8, be64 104) := by
        have := congrArg List.getLast? hi
        simp at this
        exact this.symm
      rw [hlast, h3] at hl
      exact absurd hl (by decide)

/-! ## 5. C18 — order assertion skipped at an offset-table boundary -/

/-- `BW.insert` whose order assertion is skipped when the interval counter is 0, i.e. for the
    first key of every group of `interval` keys (as if the last key were only remembered inside
    a group). -/
def bwInsert' (w : BW) (k v : Bytes) : Except Trap BW :=
  if k.length > u32Max then .error .keyTooLong else
  if v.length > u32Max then .error .valTooLong else
  let (offsets, counter) :=
    if w.counter = w.interval then (w.offsets ++ [w.buffer.length], 0) else (w.offsets, w.counter)
  match w.lastKey with
  | some lk =>
    if counter = 0 ∨ lk < k then                                               -- CHANGED (`lk < k`)
      .ok { w with buffer := w.buffer ++ BW.frame k v, lastKey := some k,
                   offsets := offsets, counter := counter + 1, items := w.items ++ [(k, v)] }
    else .error .keyOrder
  | none =>
      .ok { w with buffer := w.buffer ++ BW.frame k v, lastKey := some k,
                   offsets := offsets, counter := counter + 1, items := w.items ++ [(k, v)] }

/-- Insert a list of entries with a given insert function. -/
def bwInsertAll (ins : BW → Bytes → Bytes → Except Trap BW) (w : BW) : List Entry → Except Trap BW
  | [] => .ok w
  | (k, v) :: es =>
    match ins w k v with
    | .error t => .error t
    | .ok w' => bwInsertAll ins w' es

/-- Keys `0..7`, then `7` again. -/
def dupKvs : List Entry := (List.range 8).map (fun i => ([i.toUInt8], [])) ++ [([7], [])]

/-- **C18 is falsifiable** (`BW_insert_core` / `C18_sorted_or_trap`: an insert sequence traps with
    `keyOrder` or the block holds strictly ascending keys).  Wrong variant: `bwInsert'` (no order
    assertion when the interval counter is 0).  With interval 8, the ninth insert opens a new
    offset-table group, so the duplicate key `07` is accepted: the model traps, the variant ends
    with `items` ending in `07, 07` — not strictly ascending. -/
theorem C18_falsifiable :
    (bwInsertAll BW.insert (BW.new 8) dupKvs).toOption.map (·.items) = none ∧
    (match bwInsertAll BW.insert (BW.new 8) dupKvs with | .error t => some t | .ok _ => none)
      = some Trap.keyOrder ∧
    (bwInsertAll bwInsert' (BW.new 8) dupKvs).toOption.map (·.items) = some dupKvs ∧
    (bwInsertAll bwInsert' (BW.new 8) dupKvs).toOption.map (·.offsets) = some [0, 24] ∧
    ¬ StrictAsc dupKvs := by
  refine ⟨by decide +kernel, by decide +kernel, by decide +kernel, by decide +kernel, ?_⟩
  unfold StrictAsc dupKvs
  decide

/-- The bytes the variant would emit for that block (C18: "a writer never emits an unsorted
    block"): 47 bytes whose last two 3-byte frames both hold the key `07`. -/
theorem C18_falsifiable_bytes :
    (bwInsertAll bwInsert' (BW.new 8) dupKvs).toOption.map (fun w => w.finish.length) = some 47 ∧
    (bwInsertAll bwInsert' (BW.new 8) dupKvs).toOption.map (fun w => w.buffer.drop 21) =
      some [1, 0, 7, 1, 0, 7] := by
  decide +kernel

/-! ## 6. C02/C03 — a reloaded neighbouring index block is entered with `first` -/

section
variable {β : Type}

/-- `RC.recurLevels` that positions a freshly loaded neighbouring index block with `first`
    instead of the caller's move — right for `next`, wrong for `prev` (which needs `last`). -/
def recurLevels' (ops : BlockOps β) (load : Nat → Option β) (fixF1 : Bool) (mov : Mov) :
    List (Nat × β) → List Nat → Option (List (Nat × β) × Option Entry × List Nat)
  | [], log => some ([], none, log)
  | (off, c) :: parents, log =>
    let (c', r) := ops.apply mov c
    match r with
    | some _ => some ((off, c') :: parents, ops.current c', log)
    | none =>
      match recurLevels' ops load fixF1 mov parents log with
      | none => none
      | some (parents', some e, log) =>
        match load (offOf e) with
        | none => none
        | some nc =>
          let (nc', r') := ops.first nc                                        -- CHANGED (`ops.apply mov nc`)
          some ((if fixF1 then offOf e else off, nc') :: parents', r', offOf e :: log)
      | some (parents', none, log) => some ((off, c') :: parents', none, log)

/-- `RC.recurIndex` over `recurLevels'`. -/
def recurIndex' (ops : BlockOps β) (load : Nat → Option β) (fixF1 : Bool) (mov : Mov) (c : RC β) :
    Option (RC β × Option Entry) :=
  let c1 : Option (RC β) :=
    match c.inner with
    | some _ => some c
    | none =>
      match RC.initialIndex ops load mov (c.levels + 1) c.base [] c.log with
      | none => none
      | some (inner, log) => some { c with inner := inner, log := log }
  match c1 with
  | none => none
  | some c1 =>
    match c1.inner with
    | none => some (c1, none)
    | some inner =>
      match recurLevels' ops load fixF1 mov inner.reverse c1.log with
      | none => none
      | some (rev', r, log) => some ({ c1 with inner := some rev'.reverse, log := log }, r)

/-- `RC.prev` over `recurIndex'`. -/
def rcPrev' (ops : BlockOps β) (load : Nat → Option β) (fixF1 : Bool) (c : RC β) : RC β × Res :=
  match c.cur with
  | some b =>
    match ops.prev b with
    | (b', some e) => (RC.withCur c b', .ok (some e))
    | (b', none) =>
      let c := RC.withCur c b'
      match recurIndex' ops load fixF1 .prev c with
      | none => (c, .err)
      | some (c, some e) =>
        match RC.enter load c e with
        | none => (c, .err)
        | some (c, nb) => let (nb', r) := ops.last nb; (RC.withCur c nb', .ok r)
      | some (c, none) => (c, .ok none)
  | none => RC.last ops load c

/-- `RC.next` over `recurIndex'` (for this move the change is invisible: on a fresh block cursor
    `next` IS `first`). -/
def rcNext' (ops : BlockOps β) (load : Nat → Option β) (fixF1 : Bool) (c : RC β) : RC β × Res :=
  match c.cur with
  | some b =>
    match ops.next b with
    | (b', some e) => (RC.withCur c b', .ok (some e))
    | (b', none) =>
      let c := RC.withCur c b'
      match recurIndex' ops load fixF1 .next c with
      | none => (c, .err)
      | some (c, some e) =>
        match RC.enter load c e with
        | none => (c, .err)
        | some (c, nb) => let (nb', r) := ops.first nb; (RC.withCur c nb', .ok r)
      | some (c, none) => (c, .ok none)
  | none => RC.first ops load c

end

/-- The cursor step with `prev` / `next` replaced by the variants (`first`, `last`: the model's). -/
def stepA' (s : Store) (c : RC LC) : Op → RC LC × Res
  | .prev => rcPrev' LC.ops s.load true c
  | .next => rcNext' LC.ops s.load true c
  | op => RC.stepA s true c op

/-- Run a history over the witness store of `Props/C03` (four one-entry data blocks, two
    bottom-level index blocks, `index_levels = 2`) with a given step function. -/
def runOpsWith (stp : RC LC → Op → RC LC × Res) (ops : List Op) : List Res :=
  let c0 : RC LC := { base := 300, levels := 2, inner := none, cur := none }
  (ops.foldl (fun (acc : RC LC × List Res) op =>
    let (c, r) := stp acc.1 op
    (c, acc.2 ++ [r])) (c0, [])).2

/-- **C02/C03 are falsifiable** (`C03_history`: every history on the cursor agrees with the
    specification cursor; here the backward scan `last, prev, prev, prev` must return entries
    4, 3, 2, 1).  Wrong variant: `recurLevels'` (a reloaded neighbouring index block is entered
    with `first`).  When `prev` crosses from index block `B = [d2, d3]` back into `A = [d0, d1]`,
    the variant positions `A` on its first child: the third result is entry 1 instead of entry 2,
    and the scan then ends one entry early. -/
theorem C03_falsifiable :
    (([.last, .prev, .prev, .prev] : List Op).foldl
        (fun (acc : Spec.Pos × List Spec.SRes) op =>
          let (p, r) := Spec.step C03.witnessEntries acc.1 op; (p, acc.2 ++ [r])) (.fresh, [])).2
      = [some (some (C03.e 4)), some (some (C03.e 3)), some (some (C03.e 2)), some (some (C03.e 1))] ∧
    runOpsWith (RC.stepA C03.witnessStore true) [.last, .prev, .prev, .prev]
      = [.ok (some (C03.e 4)), .ok (some (C03.e 3)), .ok (some (C03.e 2)), .ok (some (C03.e 1))] ∧
    runOpsWith (stepA' C03.witnessStore) [.last, .prev, .prev, .prev]
      = [.ok (some (C03.e 4)), .ok (some (C03.e 3)), .ok (some (C03.e 1)), .ok none] := by
  decide

/-- Forward scans do not expose the variant (so a property about `next` alone would not). -/
theorem C03_variant_forward_ok :
    runOpsWith (stepA' C03.witnessStore) [.first, .next, .next, .next, .next]
      = [.ok (some (C03.e 1)), .ok (some (C03.e 2)), .ok (some (C03.e 3)), .ok (some (C03.e 4)),
         .ok none] := by
  decide

/-- Negated conclusion of `C03_history` for the variant (its hypothesis is
    `C03.witness_fileOK`): the third result disagrees with the specification cursor. -/
theorem C03_falsifiable' :
    FileOK C03.witnessStore 300 2 C03.witnessEntries ∧
    ¬ Spec.Agree ((runOpsWith (stepA' C03.witnessStore) [.last, .prev, .prev]).getD 2 .err)
        (Spec.step C03.witnessEntries (.at 2) .prev).2 :=
  ⟨C03.witness_fileOK, by decide⟩

/-! ## 7. C07 — final flush skipped when no entry byte is pending -/

/-- `Sorter.writeChunk` that takes `entriesLen = 0` to mean "nothing is pending" and returns
    without writing a chunk.  (`entriesLen` counts key and value BYTES; the number of pending
    entries is `boundsCount`.) -/
def writeChunk' (mf : MergeFn) (s : Sorter) : Except Sorter.SErr Sorter :=
  if s.entries.entriesLen = 0 then .ok s else                                  -- CHANGED (added)
  Sorter.writeChunkWith mf s (Sorter.sortStable s.entries.items)

/-- `Sorter.finishChunks` over `writeChunk'`. -/
def finishChunks' (mf : MergeFn) (s : Sorter) : Except Sorter.SErr Sorter :=
  match writeChunk' mf s with
  | .error e => .error e
  | .ok s =>
    match s.entries.drop with
    | .error t => .error (.trap t)
    | .ok (e, ev) => .ok { s with entries := e, events := s.events ++ ev }

/-- `Sorter.finish` over `finishChunks'`. -/
def finish' (mf : MergeFn) (s : Sorter) : Except Sorter.SErr (List Entry × Sorter) :=
  match finishChunks' mf s with
  | .error e => .error e
  | .ok s =>
    match Merger.run mf s.chunks with
    | (none, _) => .error .merge
    | (some out, m) => .ok (out, { s with calls := s.calls ++ m.calls.reverse })

/-- `C07.runAll` ending with `finish'` (the inserts are the model's). -/
def runAll' (mf : MergeFn) : Sorter → List Entry → Except Sorter.SErr (List Entry × Sorter)
  | s, [] => finish' mf s
  | s, (k, v) :: r =>
    match Sorter.insert mf s k v with
    | .error e => .error e
    | .ok s' => runAll' mf s' r

/-- **C07 is falsifiable** (`C07_stable` / `C07_total`: the run returns
    `(Spec.group kvs).map (fun (k, vs) => (k, mf' k vs))`).  Wrong variant: `writeChunk'` (the
    flush is skipped when `entriesLen = 0`).  Insert the single pair (empty key, empty value): it
    occupies one bound and zero entry bytes.  The specification — and the model, by `C07_total` —
    return that one pair; the variant returns nothing. -/
theorem C07_falsifiable :
    (Spec.group [([], [])]).map (fun (k, vs) => (k, C07.exConcat k vs)) = [([], [])] ∧
    (∃ s0 sfin, Sorter.new C07.exCfg = .ok s0 ∧
      C07.runAll (tot C07.exConcat) s0 [([], [])] = .ok ([([], [])], sfin)) ∧
    (runAll' (tot C07.exConcat) C07.exS0 [([], [])]).toOption.map (·.1) = some [] := by
  refine ⟨by decide, ?_, by decide +kernel⟩
  obtain ⟨s0, out, sfin, hnew, hrun, hout⟩ :=
    C07.C07_total C07.exConcat C07.exConcat_law C07.exCfg [([], [])] (by decide) (by decide)
      (by decide) (by decide)
  have : out = [([], [])] := by rw [hout]; decide
  subst this
  exact ⟨s0, sfin, hnew, hrun⟩

/-- What the variant saw: one pending entry (`boundsCount = 1`) of zero bytes. -/
theorem C07_falsifiable_state :
    (Sorter.insert (tot C07.exConcat) C07.exS0 [] []).toOption.map
      (fun s => (s.entries.entriesLen, s.entries.boundsCount, s.entries.items)) =
      some (0, 1, [([], [])]) := by
  decide +kernel

/-! ## 8. C08 — chunk-merge trigger `==` instead of `≥` -/

/-- `Sorter.insert` whose chunk-merge trigger is `chunks.length = max_nb_chunks` instead of
    `≥`. -/
def sInsert' (mf : MergeFn) (s : Sorter) (k v : Bytes) : Except Sorter.SErr Sorter :=
  match s.entries.fits k v with
  | .error t => .error (.trap t)
  | .ok fit =>
    let thresholdExceeded := decide (s.entries.bufLen ≥ s.cfg.budget)
    if fit || (!thresholdExceeded && s.cfg.allowRealloc) then
      match s.entries.insert k v 64 with
      | .error t => .error (.trap t)
      | .ok (e, ev) => .ok { s with entries := e, events := s.events ++ ev }
    else
      match Sorter.writeChunk mf s with
      | .error e => .error e
      | .ok s =>
        match s.entries.insert k v 64 with
        | .error t => .error (.trap t)
        | .ok (e, ev) =>
          let s := { s with entries := e, events := s.events ++ ev }
          if s.chunks.length = s.cfg.maxNb then Sorter.mergeChunks mf s else .ok s   -- CHANGED (`≥`)

/-- `sInsert'` with the pending entries written in insertion order (the counterpart of
    `Sorter.insertW` in `Proofs/SorterSortedRun`): `List.mergeSort` is defined by well-founded
    recursion and does not evaluate in the kernel. -/
def sInsertW' (mf : MergeFn) (s : Sorter) (k v : Bytes) : Except Sorter.SErr Sorter :=
  match s.entries.fits k v with
  | .error t => .error (.trap t)
  | .ok fit =>
    let thresholdExceeded := decide (s.entries.bufLen ≥ s.cfg.budget)
    if fit || (!thresholdExceeded && s.cfg.allowRealloc) then
      match s.entries.insert k v 64 with
      | .error t => .error (.trap t)
      | .ok (e, ev) => .ok { s with entries := e, events := s.events ++ ev }
    else
      match Sorter.writeChunkWith mf s s.entries.items with
      | .error e => .error e
      | .ok s =>
        match s.entries.insert k v 64 with
        | .error t => .error (.trap t)
        | .ok (e, ev) =>
          let s := { s with entries := e, events := s.events ++ ev }
          if s.chunks.length = s.cfg.maxNb then Sorter.mergeChunks mf s else .ok s   -- CHANGED (`≥`)

/-- On key-sorted pending entries the stable sort is the identity. -/
theorem sInsert'_eq_sInsertW' {mf : MergeFn} {s : Sorter} (k v : Bytes)
    (h : Sorter.KeySorted s.entries.items) : sInsert' mf s k v = sInsertW' mf s k v := by
  unfold sInsert' sInsertW' Sorter.writeChunk
  rw [Sorter.sortStable_of_sorted h]

/-- Insert a list of entries with a given insert function. -/
def sInsertAll (ins : Sorter → Bytes → Bytes → Except Sorter.SErr Sorter) :
    Sorter → List Entry → Except Sorter.SErr Sorter
  | s, [] => .ok s
  | s, (k, v) :: r =>
    match ins s k v with
    | .error e => .error e
    | .ok s' => sInsertAll ins s' r

/-- What an insert leaves pending: the previous entries and the new one, or (after a spill) the
    new one alone. -/
theorem sInsertW'_items {mf : MergeFn} {s s' : Sorter} {k v : Bytes}
    (h : sInsertW' mf s k v = .ok s') :
    s'.entries.items = s.entries.items ++ [(k, v)] ∨ s'.entries.items = [(k, v)] := by
  unfold sInsertW' at h
  split at h; · cases h
  dsimp only at h
  split at h
  · split at h
    · cases h
    · rename_i e ev hi
      cases h
      exact .inl (Grenad.insert_items _ _ _ _ _ _ hi)
  · split at h
    · cases h
    · rename_i s1 hw
      have h1 : s1.entries.items = [] := by
        unfold Sorter.writeChunkWith at hw
        split at hw
        · cases hw
        · cases hw; rfl
      split at h
      · cases h
      · rename_i e ev hi
        have h2 := Grenad.insert_items _ _ _ _ _ _ hi
        rw [h1] at h2
        right
        split at h
        · unfold Sorter.mergeChunks at h
          split at h
          · cases h
          · cases h; exact h2
        · cases h; exact h2

/-- On a key-sorted input a whole run of `sInsert'` is the kernel-evaluable run of `sInsertW'`. -/
theorem sInsertAll_eq (mf : MergeFn) : ∀ (l : List Entry) (s : Sorter),
    Sorter.KeySorted (s.entries.items ++ l) →
    sInsertAll (sInsert' mf) s l = sInsertAll (sInsertW' mf) s l := by
  intro l
  induction l with
  | nil => intro s _; rfl
  | cons kv l ih =>
    intro s hs
    obtain ⟨k, v⟩ := kv
    have h1 : Sorter.KeySorted s.entries.items := (List.pairwise_append.mp hs).1
    simp only [sInsertAll, sInsert'_eq_sInsertW' k v h1]
    cases hi : sInsertW' mf s k v with
    | error e => rfl
    | ok s1 =>
      apply ih
      rcases sInsertW'_items hi with e | e
      · rw [e]; simpa [List.append_assoc] using hs
      · rw [e]; exact (List.pairwise_append.mp hs).2.1

/-- 64-byte buffer that may not grow (three 18-byte entries fit), `max_nb_chunks = 1`. -/
def cfg1 : SCfg :=
  { threshold := 64, minMemory := 64, initialSize := 64, allowRealloc := false, maxChunks := 1 }

def s1 : Sorter :=
  { cfg := cfg1, entries := { bufLen := 64, entriesLen := 0, boundsCount := 0, items := [] },
    chunks := [], events := [.alloc 64], calls := [] }

theorem s1_new : Sorter.new cfg1 = .ok s1 := rfl

/-- Sixteen one-byte keys in increasing order: five spills. -/
def kv16 : List Entry := (List.range 16).map (fun i => ([i.toUInt8], [0]))

theorem kv16_sorted : Sorter.KeySorted kv16 := by unfold Sorter.KeySorted; decide +kernel

/-- Number of chunks held, `create` events, `dropChunk` events. -/
def sSumm (r : Except Sorter.SErr Sorter) : Option (Nat × Nat × Nat) :=
  match r with
  | .ok s => some (s.chunks.length, Grenad.creates s.events, Grenad.drops s.events)
  | .error _ => none

/-- **C08 is falsifiable** (`C08_chunks`: at most `max (max_nb_chunks - 1) 1` chunks are held
    between calls and never more than `max_nb_chunks + 2` chunk handles are alive).  Wrong variant:
    `sInsert'` (merge trigger `=`).  With `max_nb_chunks = 1` the first spill triggers a merge
    (1 = 1), every later one finds 2, 3, … chunks and never does.  After sixteen inserts the model
    holds 1 chunk (10 creates, 9 drops); the variant holds 5 chunks, all alive (6 creates,
    1 drop): `5 > max_nb_chunks + 2 = 3`. -/
theorem C08_falsifiable :
    cfg1.maxNb + 2 = 3 ∧
    sSumm (sInsertAll (Sorter.insert C08.mfC) s1 kv16) = some (1, 10, 9) ∧
    sSumm (sInsertAll (sInsert' C08.mfC) s1 kv16) = some (5, 6, 1) := by
  have e1 : sInsertAll (Sorter.insert C08.mfC) s1 kv16 = Sorter.insertAllW C08.mfC s1 kv16 := by
    have : sInsertAll (Sorter.insert C08.mfC) = Sorter.insertAll C08.mfC := by
      funext s l
      induction l generalizing s with
      | nil => rfl
      | cons kv l ih =>
        obtain ⟨k, v⟩ := kv
        simp only [sInsertAll, Sorter.insertAll]
        cases Sorter.insert C08.mfC s k v with
        | error e => rfl
        | ok s' => exact ih s'
    rw [this]
    exact (Sorter.insertAll_eq_insertAllW (P := fun _ _ => True) (.new s1_new) kv16
      (fun _ _ => trivial) kv16_sorted).1
  rw [e1, sInsertAll_eq C08.mfC kv16 s1 kv16_sorted]
  decide +kernel

/-- Negated conclusion of `C08_chunks` for the variant: the state reached holds more than
    `max (max_nb_chunks - 1) 1` chunks, and on the whole event sequence (a prefix of itself)
    `creates > drops + (max_nb_chunks + 2)`. -/
theorem C08_falsifiable' :
    ∃ s, sInsertAll (sInsert' C08.mfC) s1 kv16 = .ok s ∧
      ¬ (s.chunks.length ≤ max (cfg1.maxNb - 1) 1) ∧
      ¬ (∀ p, p <+: s.events →
          Grenad.creates p ≤ Grenad.drops p + (cfg1.maxNb + 2) ∧ Grenad.drops p ≤ Grenad.creates p) := by
  have h := C08_falsifiable.2.2
  cases hs : sInsertAll (sInsert' C08.mfC) s1 kv16 with
  | error e => rw [hs] at h; cases h
  | ok s =>
    rw [hs] at h
    simp only [sSumm, Option.some.injEq, Prod.mk.injEq] at h
    obtain ⟨h1, h2, h3⟩ := h
    refine ⟨s, rfl, by rw [h1]; decide, fun hall => ?_⟩
    have := (hall s.events (List.prefix_refl _)).1
    rw [h2, h3] at this
    exact absurd this (by decide)

end Grenad.Props.Falsifiable

section Axioms
open Grenad.Props.Falsifiable
#print axioms C14_falsifiable
#print axioms C05_falsifiable
#print axioms C06_falsifiable
#print axioms C15_falsifiable_pending
#print axioms C15_falsifiable_pending'
#print axioms C15_falsifiable_bound
#print axioms C15_falsifiable_bound'
#print axioms C18_falsifiable
#print axioms C03_falsifiable
#print axioms C03_falsifiable'
#print axioms C07_falsifiable
#print axioms C08_falsifiable
#print axioms C08_falsifiable'
end Axioms
