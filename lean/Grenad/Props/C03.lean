/-
  C03 — Cursor results depend only on content and logical position, not on history.
-/
import Grenad.Model.Abstract
import Grenad.Proofs.TCursor7

namespace Grenad.Props.C03

open Grenad

/-! ### The pinned code was wrong (finding F1): a concrete witness, by evaluation.

Four one-entry data blocks under two bottom-level index blocks `A = [d0,d1]`, `B = [d2,d3]`, one
middle index block `M = [A,B]` and the root `R = [M]` (index_levels = 2).  After `next` crosses
from `A` into `B`, the code as pinned keeps `A`'s offset recorded next to `B`; the following
`first` therefore believes `A` is loaded and answers from `B`. -/

def e (i : UInt8) : Entry := ([i], [i])

def witnessStore : Store
  | 0 => some [e 1] | 10 => some [e 2] | 20 => some [e 3] | 30 => some [e 4]
  | 100 => some [([1], be64 0), ([2], be64 10)]
  | 110 => some [([3], be64 20), ([4], be64 30)]
  | 200 => some [([2], be64 100), ([4], be64 110)]
  | 300 => some [([4], be64 200)]
  | _ => none

def witnessOps : List Op := [.first, .first, .next, .next, .first]

def runOps (fixF1 : Bool) (ops : List Op) : List Res :=
  let c0 : RC LC := { base := 300, levels := 2, inner := none, cur := none }
  (ops.foldl (fun (acc : RC LC × List Res) op =>
    let (c, r) := RC.stepA witnessStore fixF1 acc.1 op
    (c, acc.2 ++ [r])) (c0, [])).2

/-- With the stale recorded offset (code as pinned) the last `first` returns the *third* entry. -/
theorem C03_counterexample_pinned :
    runOps false witnessOps = [.ok (some (e 1)), .ok (some (e 1)), .ok (some (e 2)), .ok (some (e 3)), .ok (some (e 3))] := by
  decide

/-- With the offset recorded on reload (repaired code) it returns the first entry, as the
    specification cursor does. -/
theorem C03_witness_repaired :
    runOps true witnessOps = [.ok (some (e 1)), .ok (some (e 1)), .ok (some (e 2)), .ok (some (e 3)), .ok (some (e 1))] := by
  decide

/-! ### The repaired cursor is correct: every history agrees with the specification cursor.

`TCursor.Inv s root levels es c p` (Grenad/Proofs/TCursor7.lean) is the state invariant: the file is
empty and nothing is held, or the file is a labelled tree (`Sub`), every held index block whose
recorded offset carries the label of its own depth is the block stored at that offset (cache
soundness), and — at position `i` — the held blocks are the root-to-leaf path of entry `i`, each
index cursor on the child on that path and the data cursor on entry `i`.  The initial state
satisfies it (`TCursor.Inv_c0`), every operation keeps it (`TCursor.step_inv`), so every state
reachable by a history does (`C03_reachable_inv`).  A clone is a copy of the state value; that it
"continues independently and correctly" is `C03_from_reachable` applied to that value. -/

open TCursor

/-- The initial cursor of a file (`ReaderCursor::new`). -/
abbrev c0 := TCursor.c0
/-- Run a history on the repaired cursor and on the specification cursor; collect result pairs. -/
abbrev runBoth := TCursor.runBoth
/-- The concrete state and logical position after a history. -/
abbrev runState := TCursor.runState

/-- One operation from a state satisfying the invariant: the result agrees with the
    specification cursor and the invariant holds afterwards. -/
theorem C03_step {s : Store} {root levels : Nat} {es : List Entry}
    (h : FileOK s root levels es) {c : RC LC} {p : Spec.Pos}
    (hinv : Inv s root levels es c p) (op : Op) :
    Spec.Agree (RC.stepA s true c op).2 (Spec.step es p op).2 ∧
      Inv s root levels es (RC.stepA s true c op).1 (Spec.step es p op).1 :=
  step_inv h hinv op

/-- Every state reached by a history from a state satisfying the invariant satisfies it. -/
theorem C03_reachable_inv {s : Store} {root levels : Nat} {es : List Entry}
    (h : FileOK s root levels es) {c : RC LC} {p : Spec.Pos}
    (hinv : Inv s root levels es c p) (ops : List Op) :
    Inv s root levels es (runState s es c p ops).1 (runState s es c p ops).2 :=
  runState_inv h hinv ops

/-- From any state satisfying the invariant (in particular any reachable state, hence any clone),
    every history agrees with the specification cursor started at the corresponding position. -/
theorem C03_from_reachable {s : Store} {root levels : Nat} {es : List Entry}
    (h : FileOK s root levels es) {c : RC LC} {p : Spec.Pos}
    (hinv : Inv s root levels es c p) (ops : List Op) :
    ∀ x ∈ runBoth s es c p ops, Spec.Agree x.1 x.2 :=
  runBoth_agree h hinv ops

/-- **C03.** Over a well-formed file, every finite history of cursor operations on the repaired
    reader cursor agrees with the specification cursor. -/
theorem C03_history {s : Store} {root levels : Nat} {es : List Entry}
    (h : FileOK s root levels es) (ops : List Op) :
    ∀ x ∈ runBoth s es (c0 root levels) .fresh ops, Spec.Agree x.1 x.2 :=
  runBoth_agree h (Inv_c0 h) ops

/-- Clones: after any history `ops₁`, the state reached (a value; cloning copies it) answers any
    further history `ops₂` as the specification cursor does from the position reached. -/
theorem C03_clone {s : Store} {root levels : Nat} {es : List Entry}
    (h : FileOK s root levels es) (ops₁ ops₂ : List Op) :
    ∀ x ∈ runBoth s es (runState s es (c0 root levels) .fresh ops₁).1
        (runState s es (c0 root levels) .fresh ops₁).2 ops₂, Spec.Agree x.1 x.2 :=
  runBoth_agree h (runState_inv h (Inv_c0 h) ops₁) ops₂

/-- Results depend only on content and logical position: two states at the same logical
    position give the same result wherever the specification determines it. -/
theorem C03_position_determines {s : Store} {root levels : Nat} {es : List Entry}
    (h : FileOK s root levels es) {c₁ c₂ : RC LC} {p : Spec.Pos}
    (h₁ : Inv s root levels es c₁ p) (h₂ : Inv s root levels es c₂ p) (op : Op) {r : Option Entry}
    (hr : (Spec.step es p op).2 = some r) :
    (RC.stepA s true c₁ op).2 = (RC.stepA s true c₂ op).2 := by
  have a₁ := (step_inv h h₁ op).1
  have a₂ := (step_inv h h₂ op).1
  rw [hr] at a₁ a₂
  exact a₁.trans a₂.symm

/-! ### The hypotheses are satisfiable -/

def witnessEntries : List Entry := [e 1, e 2, e 3, e 4]

def witnessLvl (off : Nat) : Nat :=
  if off < 100 then 0 else if off < 200 then 1 else if off < 300 then 2 else 3

theorem witness_blocks : ∀ off es', witnessStore off = some es' → StrictAsc es' ∧ off < 2 ^ 64 := by
  intro off es' h
  unfold witnessStore at h
  split at h <;> simp only [Option.some.injEq, reduceCtorEq] at h <;> subst h <;>
    exact ⟨by unfold StrictAsc; decide, by decide⟩

theorem witness_sub : Sub witnessStore witnessLvl 3 300 witnessEntries := by
  have l0 : Sub witnessStore witnessLvl 0 0 [e 1] := .leaf 0 _ rfl (by simp) rfl
  have l1 : Sub witnessStore witnessLvl 0 10 [e 2] := .leaf 10 _ rfl (by simp) rfl
  have l2 : Sub witnessStore witnessLvl 0 20 [e 3] := .leaf 20 _ rfl (by simp) rfl
  have l3 : Sub witnessStore witnessLvl 0 30 [e 4] := .leaf 30 _ rfl (by simp) rfl
  have a : Sub witnessStore witnessLvl 1 100 [e 1, e 2] :=
    .node 0 100 [(0, [e 1]), (10, [e 2])] (by simp) rfl rfl (by
      intro k hk; simp at hk; rcases hk with rfl | rfl <;> assumption)
  have b : Sub witnessStore witnessLvl 1 110 [e 3, e 4] :=
    .node 0 110 [(20, [e 3]), (30, [e 4])] (by simp) rfl rfl (by
      intro k hk; simp at hk; rcases hk with rfl | rfl <;> assumption)
  have m : Sub witnessStore witnessLvl 2 200 [e 1, e 2, e 3, e 4] :=
    .node 1 200 [(100, [e 1, e 2]), (110, [e 3, e 4])] (by simp) rfl rfl (by
      intro k hk; simp at hk; rcases hk with rfl | rfl <;> assumption)
  exact .node 2 300 [(200, [e 1, e 2, e 3, e 4])] (by simp) rfl rfl (by
    intro k hk; simp at hk; subst hk; exact m)

/-- The witness store of finding F1 is a well-formed file with two index levels below the root. -/
theorem witness_fileOK : FileOK witnessStore 300 2 witnessEntries :=
  ⟨by unfold StrictAsc witnessEntries; decide, Or.inr ⟨witnessLvl, witness_sub⟩, witness_blocks⟩

/-- The empty file: an empty root block, any number of levels. -/
def emptyStore : Store
  | 0 => some []
  | _ => none

theorem empty_fileOK (levels : Nat) : FileOK emptyStore 0 levels [] :=
  ⟨List.Pairwise.nil, Or.inl ⟨rfl, rfl⟩, by
    intro off es' h
    unfold emptyStore at h
    split at h <;> simp only [Option.some.injEq, reduceCtorEq] at h
    subst h; exact ⟨List.Pairwise.nil, by decide⟩⟩

example (ops : List Op) :
    ∀ x ∈ runBoth witnessStore witnessEntries (c0 300 2) .fresh ops, Spec.Agree x.1 x.2 :=
  C03_history witness_fileOK ops

example (levels : Nat) (ops : List Op) :
    ∀ x ∈ runBoth emptyStore [] (c0 0 levels) .fresh ops, Spec.Agree x.1 x.2 :=
  C03_history (empty_fileOK levels) ops

example (ops₁ ops₂ : List Op) :
    ∀ x ∈ runBoth witnessStore witnessEntries
        (runState witnessStore witnessEntries (c0 300 2) .fresh ops₁).1
        (runState witnessStore witnessEntries (c0 300 2) .fresh ops₁).2 ops₂, Spec.Agree x.1 x.2 :=
  C03_clone witness_fileOK ops₁ ops₂

/-- A sample history evaluated on both cursors (the specification leaves `next` / `current` open
    after a `None`; there the repaired cursor answers from where its data cursor stayed). -/
example : runBoth witnessStore witnessEntries (c0 300 2) .fresh
    [.first, .next, .next, .first, .le [3], .prev, .prev, .prev, .next, .ge [9], .current, .last,
      .next, .eq [2], .reset, .prev]
  = [(.ok (some (e 1)), some (some (e 1))), (.ok (some (e 2)), some (some (e 2))),
     (.ok (some (e 3)), some (some (e 3))), (.ok (some (e 1)), some (some (e 1))),
     (.ok (some (e 3)), some (some (e 3))), (.ok (some (e 2)), some (some (e 2))),
     (.ok (some (e 1)), some (some (e 1))), (.ok none, some none), (.ok (some (e 2)), none),
     (.ok none, some none), (.ok (some (e 2)), none), (.ok (some (e 4)), some (some (e 4))),
     (.ok none, some none), (.ok (some (e 2)), some (some (e 2))), (.ok none, some none),
     (.ok (some (e 4)), some (some (e 4)))] := by decide

end Grenad.Props.C03
