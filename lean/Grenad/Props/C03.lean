/-
  C03 — Cursor results depend only on content and logical position, not on history.
-/
import Grenad.Model.Abstract

namespace Grenad.Props.C03

open Grenad

/-! ### The pinned code was wrong (finding F1): a concrete witness, by evaluation.

Four one-entry data blocks under two bottom-level index blocks `A = [d0,d1]`, `B = [d2,d3]`, one
middle index block `M = [A,B]` and the root `R = [M]` (index_levels = 2).  After `next` crosses
from `A` into `B`, the code as pinned keeps `A`'s offset recorded next to `B`; the following
`first` therefore believes `A` is loaded and answers from `B`. -/

def e (i : UInt8) : Entry := ([i], [i])

def witnessStore : Store
  | 0 => some [e 1] | 10 => some [e 2] | 20 => some [e 3] | 30 => some [e 4]
  | 100 => some [([1], be64 0), ([2], be64 10)]
  | 110 => some [([3], be64 20), ([4], be64 30)]
  | 200 => some [([2], be64 100), ([4], be64 110)]
  | 300 => some [([4], be64 200)]
  | _ => none

def witnessOps : List Op := [.first, .first, .next, .next, .first]

def runOps (fixF1 : Bool) (ops : List Op) : List Res :=
  let c0 : RC LC := { base := 300, levels := 2, inner := none, cur := none }
  (ops.foldl (fun (acc : RC LC × List Res) op =>
    let (c, r) := RC.stepA witnessStore fixF1 acc.1 op
    (c, acc.2 ++ [r])) (c0, [])).2

/-- With the stale recorded offset (code as pinned) the last `first` returns the *third* entry. -/
theorem C03_counterexample_pinned :
    runOps false witnessOps = [.ok (some (e 1)), .ok (some (e 1)), .ok (some (e 2)), .ok (some (e 3)), .ok (some (e 3))] := by
  decide

/-- With the offset recorded on reload (repaired code) it returns the first entry, as the
    specification cursor does. -/
theorem C03_witness_repaired :
    runOps true witnessOps = [.ok (some (e 1)), .ok (some (e 1)), .ok (some (e 2)), .ok (some (e 3)), .ok (some (e 1))] := by
  decide

end Grenad.Props.C03
