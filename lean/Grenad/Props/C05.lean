/-
  C05 — Prefix iteration yields exactly the entries whose key starts with the prefix, in ascending
  order (`PrefixIter`) or descending order (`RevPrefixIter`); `advance_key` is the exclusive upper
  bound of the keys with a given prefix, and is `None` exactly for prefixes made of 0xFF bytes
  (the empty prefix included).

  Layer: the iterator algorithms of `Grenad.Model.Iter`, run over a cursor that refines the
  specification cursor `Spec.step es` (that the byte-level cursor does so is C02/C03).

  * `C05_prefix`, `C05_prefix_rev`: over `Spec.stepTotal es`, from position `fresh`.
  * `C05_prefix_refines`: over ANY cursor simulating the specification cursor; no side condition.
  * `C05_prefix_rev_refines`: the same for the backward iterator, under the side condition
    `LostCurrentOK step' c0 p`.  `move_on_last_prefix` is the only place where an iterator issues
    a call whose result the specification leaves open: `current()` right after a floor seek
    `le (advance_key p)` that returned `None`.  At that point no entry is `≤ advance_key p`, hence
    no entry starts with `p` and the answer must be empty; so that `current()` must not fail and
    must not return an entry that starts with `p`.
      - `C05_side_condition_necessary`: the condition is the weakest possible.
      - `C05_side_condition_of_ge`: it holds if the entry returned has a key `≥` the probe.
      - `C05_side_condition_of_mem`: it holds if the entry returned is any entry of the file.
      - `C05_side_condition_stepTotal`: it holds for `Spec.stepTotal` (which returns `None`).
      - `badStep` below: a cursor that agrees with `Spec.step` wherever specified but violates
        the condition makes the backward prefix iterator return a wrong (non-empty) list.
-/
import Grenad.Proofs.IterMain

namespace Grenad.Props.C05

open Grenad Grenad.IterP

/-! ### `advance_key` -/

/-- `advance_key(p) = Some(s)`: a key starts with `p` iff it lies in `[p, s)`. -/
theorem C05_advanceKey_spec (p s : Bytes) (h : advanceKey p = some s) (k : Bytes) :
    p.isPrefixOf k = true ↔ (p ≤ k ∧ k < s) :=
  advanceKey_spec p s h k

/-- `advance_key(p) = None` exactly when `p` consists of 0xFF bytes only (or is empty). -/
theorem C05_advanceKey_none (p : Bytes) : advanceKey p = none ↔ ∀ b ∈ p, b = 255 :=
  advanceKey_none p

/-- In that case a key starts with `p` iff it is `≥ p`: the prefix range has no upper bound. -/
theorem C05_advanceKey_none_spec (p : Bytes) (h : ∀ b ∈ p, b = 255) (k : Bytes) :
    p.isPrefixOf k = true ↔ p ≤ k :=
  isPrefixOf_iff_le_of_all255 p h k

/-! ### the iterators over the specification cursor -/

/-- C05, forward. -/
theorem C05_prefix (es : List Entry) (hasc : StrictAsc es) (p : Bytes) (fuel : Nat)
    (hfuel : fuel > es.length) :
    collect (PrefixIter.next (Spec.stepTotal es)) fuel { cursor := .fresh, pre := p } [] =
      some (Spec.withPrefix es p) :=
  prefix_collect (sim_stepTotal es) hasc .fresh .fresh rfl p fuel hfuel

/-- C05, backward. -/
theorem C05_prefix_rev (es : List Entry) (hasc : StrictAsc es) (p : Bytes) (fuel : Nat)
    (hfuel : fuel > es.length) :
    collect (PrefixIter.nextRev (Spec.stepTotal es)) fuel { cursor := .fresh, pre := p } [] =
      some (Spec.withPrefix es p).reverse :=
  prefix_collect_rev (sim_stepTotal es) hasc .fresh .fresh rfl p
    (lostCurrentOK_stepTotal es .fresh p) fuel hfuel

/-! ### the iterators over any refining cursor -/

/-- C05, forward, over any cursor that simulates the specification cursor, from any position. -/
theorem C05_prefix_refines {γ : Type} (es : List Entry) (hasc : StrictAsc es)
    (step' : γ → Op → γ × Res) (R : γ → Spec.Pos → Prop) (hsim : Sim es step' R)
    (c0 : γ) (pos0 : Spec.Pos) (hR : R c0 pos0) (p : Bytes) (fuel : Nat)
    (hfuel : fuel > es.length) :
    collect (PrefixIter.next step') fuel { cursor := c0, pre := p } [] =
      some (Spec.withPrefix es p) :=
  prefix_collect hsim hasc c0 pos0 hR p fuel hfuel

/-- C05, backward, over any cursor that simulates the specification cursor, from any position,
    under the side condition on `current()` after a failed floor seek. -/
theorem C05_prefix_rev_refines {γ : Type} (es : List Entry) (hasc : StrictAsc es)
    (step' : γ → Op → γ × Res) (R : γ → Spec.Pos → Prop) (hsim : Sim es step' R)
    (c0 : γ) (pos0 : Spec.Pos) (hR : R c0 pos0) (p : Bytes)
    (hside : LostCurrentOK step' c0 p) (fuel : Nat) (hfuel : fuel > es.length) :
    collect (PrefixIter.nextRev step') fuel { cursor := c0, pre := p } [] =
      some (Spec.withPrefix es p).reverse :=
  prefix_collect_rev hsim hasc c0 pos0 hR p hside fuel hfuel

/-- The side condition, unfolded. -/
theorem C05_side_condition_def {γ : Type} (step' : γ → Op → γ × Res) (c0 : γ) (p : Bytes) :
    LostCurrentOK step' c0 p ↔
      ∀ np c1, advanceKey p = some np → step' c0 (.le np) = (c1, .ok none) →
        ∃ c2 r, step' c1 .current = (c2, .ok r) ∧ ∀ e, r = some e → p.isPrefixOf e.1 = false :=
  Iff.rfl

/-- The side condition is necessary: it follows from the conclusion of `C05_prefix_rev_refines`
    (for any non-zero fuel). -/
theorem C05_side_condition_necessary {γ : Type} (es : List Entry) (hasc : StrictAsc es)
    (step' : γ → Op → γ × Res) (R : γ → Spec.Pos → Prop) (hsim : Sim es step' R)
    (c0 : γ) (pos0 : Spec.Pos) (hR : R c0 pos0) (p : Bytes) (fuel : Nat) (hfuel : 0 < fuel)
    (h : collect (PrefixIter.nextRev step') fuel { cursor := c0, pre := p } [] =
      some (Spec.withPrefix es p).reverse) :
    LostCurrentOK step' c0 p :=
  lostCurrentOK_of_prefix_collect_rev hsim hasc c0 pos0 hR p fuel hfuel h

/-- Sufficient: after a failed floor seek `le q`, `current()` returns nothing or an entry with
    key `≥ q` (the Rust cursor is then parked on the ceiling of `q`, whose key is `> q`). -/
theorem C05_side_condition_of_ge {γ : Type} (step' : γ → Op → γ × Res) (c0 : γ) (p : Bytes)
    (h : ∀ q c1, step' c0 (.le q) = (c1, .ok none) →
      ∃ c2 r, step' c1 .current = (c2, .ok r) ∧ ∀ e, r = some e → q ≤ e.1) :
    LostCurrentOK step' c0 p :=
  LostCurrentGe.ok h p

/-- Sufficient: after a failed floor seek, `current()` returns nothing or any entry of the file. -/
theorem C05_side_condition_of_mem {γ : Type} (es : List Entry) (hasc : StrictAsc es)
    (step' : γ → Op → γ × Res) (R : γ → Spec.Pos → Prop) (hsim : Sim es step' R)
    (c0 : γ) (pos0 : Spec.Pos) (hR : R c0 pos0) (p : Bytes)
    (h : ∀ q c1, step' c0 (.le q) = (c1, .ok none) →
      ∃ c2 r, step' c1 .current = (c2, .ok r) ∧ ∀ e, r = some e → e ∈ es) :
    LostCurrentOK step' c0 p :=
  lostCurrentOK_of_mem hsim hasc c0 pos0 hR p h

theorem C05_side_condition_stepTotal (es : List Entry) (pos : Spec.Pos) (p : Bytes) :
    LostCurrentOK (Spec.stepTotal es) pos p :=
  lostCurrentOK_stepTotal es pos p

/-! ### Concrete instances -/

/-- Five entries, strictly ascending, with keys around the prefix `FF FF`. -/
def es5 : List Entry :=
  [([1], [10]), ([255, 254], [20]), ([255, 255], [30]), ([255, 255, 0], [40]),
   ([255, 255, 255, 7], [50])]

theorem es5_asc : StrictAsc es5 := by unfold StrictAsc es5; decide

/-- Four entries with keys around the prefix `02`; `advance_key [2] = [3]` is present. -/
def es4 : List Entry :=
  [([1, 255], [10]), ([2], [20]), ([2, 255], [30]), ([3], [40])]

theorem es4_asc : StrictAsc es4 := by unfold StrictAsc es4; decide

example : advanceKey [2] = some [3] := by decide
example : advanceKey [2, 255, 255] = some [3] := by decide
example : advanceKey [1, 254, 255] = some [1, 255] := by decide
example : advanceKey [255, 255] = none := by decide
example : advanceKey [] = none := by decide

-- prefix of 0xFF bytes: no upper bound, the backward iterator starts from `last`
example :
    collect (PrefixIter.next (Spec.stepTotal es5)) 6 { cursor := .fresh, pre := [255, 255] } [] =
      some [([255, 255], [30]), ([255, 255, 0], [40]), ([255, 255, 255, 7], [50])] := by decide

example :
    collect (PrefixIter.nextRev (Spec.stepTotal es5)) 6 { cursor := .fresh, pre := [255, 255] } [] =
      some [([255, 255, 255, 7], [50]), ([255, 255, 0], [40]), ([255, 255], [30])] := by decide

example :
    collect (PrefixIter.nextRev (Spec.stepTotal es5)) 6 { cursor := .fresh, pre := [255, 255] } [] =
      some (Spec.withPrefix es5 [255, 255]).reverse :=
  C05_prefix_rev es5 es5_asc _ 6 (by decide)

-- `advance_key p` present in the list: `le` lands on it and one extra `prev` is taken
example :
    collect (PrefixIter.nextRev (Spec.stepTotal es4)) 5 { cursor := .fresh, pre := [2] } [] =
      some [([2, 255], [30]), ([2], [20])] := by decide

example :
    collect (PrefixIter.next (Spec.stepTotal es4)) 5 { cursor := .fresh, pre := [2] } [] =
      some (Spec.withPrefix es4 [2]) :=
  C05_prefix es4 es4_asc _ 5 (by decide)

-- the empty prefix selects everything
example :
    collect (PrefixIter.nextRev (Spec.stepTotal es4)) 5 { cursor := .fresh, pre := [] } [] =
      some es4.reverse := by decide

-- a prefix below every key: `le (advance_key p)` fails, `current()` is consulted in position `lost`
example :
    collect (PrefixIter.nextRev (Spec.stepTotal es4)) 5 { cursor := .fresh, pre := [0] } [] =
      some [] := by decide

/-! ### the side condition cannot be dropped -/

/-- A cursor that behaves as `Spec.step` wherever the latter is specified, but whose `current()`
    in position `lost` returns a made-up entry. -/
def badStep (es : List Entry) (pos : Spec.Pos) (op : Op) : Spec.Pos × Res :=
  match pos, op with
  | .lost, .current => (.lost, .ok (some ([5, 0], [])))
  | pos, op => Spec.stepTotal es pos op

theorem badStep_sim (es : List Entry) : Sim es (badStep es) Eq := by
  intro c pos op hc
  subst hc
  by_cases h : c = .lost ∧ op = .current
  · obtain ⟨rfl, rfl⟩ := h
    exact ⟨rfl, trivial⟩
  · have : badStep es c op = Spec.stepTotal es c op := by
      unfold badStep
      split
      · exact absurd ⟨rfl, rfl⟩ h
      · rfl
    rw [this]
    exact sim_stepTotal es c c op rfl

/-- Over `badStep` the backward prefix iterator returns an entry that is not in the file. -/
example :
    collect (PrefixIter.nextRev (badStep [([7], [])])) 2 { cursor := .fresh, pre := [5] } [] =
      some [([5, 0], [])] := by decide

example : Spec.withPrefix [([7], [])] [5] = [] := by decide

example : ¬ LostCurrentOK (badStep [([7], [])]) .fresh [5] := by
  intro h
  obtain ⟨c2, r, h1, h2⟩ := h [6] .lost (by decide) (by decide)
  have hr : r = some ([5, 0], []) := by
    have : badStep [([7], [])] .lost .current = (.lost, .ok (some ([5, 0], []))) := rfl
    rw [this] at h1
    cases h1
    rfl
  exact absurd (h2 _ hr) (by decide)

end Grenad.Props.C05
