/-
  C11 — Results and emitted bytes do not depend on how I/O calls are split or interrupted.

  The I/O layer (`Grenad.Model.IO`) answers every `write` / `read` call from a schedule: partial
  acceptance of any size, `Interrupted`, or a fault.  The theorems below say that for every
  schedule without faults the bytes that reach the sink, the `CountWrite` counter, the bytes a
  `read_exact` / `take(..).read_to_end` delivers, and therefore every block the reader loads, are
  the same — those of the pure definitions the rest of the model is built on.
-/
import Grenad.Proofs.IOProofs
import Grenad.Proofs.Wave3IO
import Grenad.Proofs.MetaIOProofs

namespace Grenad.Props.C11

open Grenad Grenad.IOM

/-! ### Writing -/

/-- `write_all`: whatever the split into partial writes and interruptions, exactly `buf` is
    appended, `count` advances by `buf.length`, no error (an exhausted schedule accepts
    everything). -/
theorem writeAll_indep (buf : Bytes) (s : Sink) (sch : List WResp) (hff : WFaultFree sch) :
    let r := writeAll buf s sch
    r.2.2 = none ∧ r.1.data = s.data ++ buf ∧ r.1.count = s.count + buf.length := by
  obtain ⟨h1, h2, h3, _⟩ := writeAll_ff hff buf s
  exact ⟨h1, h2, h3⟩

/-- A sequence of `write_all` calls: the sink receives exactly the concatenation. -/
theorem writeMany_indep (bufs : List Bytes) (s : Sink) (sch : List WResp) (hff : WFaultFree sch) :
    let r := writeMany bufs s sch
    r.2.2 = none ∧ r.1.data = s.data ++ bufs.flatten ∧
      r.1.count = s.count + bufs.flatten.length := by
  obtain ⟨h1, h2, h3, _⟩ := writeMany_ff hff bufs s
  exact ⟨h1, h2, h3⟩

/-- Two fault-free schedules are indistinguishable from the sink's contents and counter. -/
theorem writeMany_indep₂ (bufs : List Bytes) (s : Sink) (sch₁ sch₂ : List WResp)
    (h₁ : WFaultFree sch₁) (h₂ : WFaultFree sch₂) :
    (writeMany bufs s sch₁).1 = (writeMany bufs s sch₂).1 ∧
    (writeMany bufs s sch₁).2.2 = (writeMany bufs s sch₂).2.2 := by
  obtain ⟨a1, a2, a3, _⟩ := writeMany_ff h₁ bufs s
  obtain ⟨b1, b2, b3, _⟩ := writeMany_ff h₂ bufs s
  refine ⟨?_, by rw [a1, b1]⟩
  cases h : (writeMany bufs s sch₁).1
  cases h' : (writeMany bufs s sch₂).1
  simp_all

/-- The offsets recorded in index entries: under any fault-free schedule, writing
    `bufs₁ ++ bufs₂` is writing `bufs₁`, then `bufs₂` on the remaining schedule, and at the
    point in between (where the writer reads `CountWrite::count` to record the offset of the next
    block) the counter equals the total length of the buffers written so far — even when the
    sink accepted them in arbitrarily small pieces. -/
theorem C11_writer_count (bufs₁ bufs₂ : List Bytes) (s : Sink) (sch : List WResp)
    (hff : WFaultFree sch) :
    let mid := writeMany bufs₁ s sch
    writeMany (bufs₁ ++ bufs₂) s sch = writeMany bufs₂ mid.1 mid.2.1 ∧
    mid.2.2 = none ∧
    mid.1.count = s.count + bufs₁.flatten.length ∧
    mid.1.data = s.data ++ bufs₁.flatten ∧
    WFaultFree mid.2.1 := by
  obtain ⟨h1, h2, h3, h4⟩ := writeMany_ff hff bufs₁ s
  refine ⟨?_, h1, h3, h2, h4⟩
  rw [writeMany_append]
  rcases hm : writeMany bufs₁ s sch with ⟨s', sch', e⟩
  rw [hm] at h1
  simp only at h1
  subst h1
  rfl

/-- With the first `j` buffers: `count` after them is the sum of their lengths. -/
theorem C11_writer_count_take (bufs : List Bytes) (j : Nat) (sch : List WResp)
    (hff : WFaultFree sch) :
    (writeMany (bufs.take j) {} sch).1.count = ((bufs.take j).map List.length).sum ∧
    writeMany bufs {} sch =
      writeMany (bufs.drop j) (writeMany (bufs.take j) {} sch).1
        (writeMany (bufs.take j) {} sch).2.1 := by
  obtain ⟨h1, _, h3, _, _⟩ := C11_writer_count (bufs.take j) (bufs.drop j) {} sch hff
  rw [List.take_append_drop] at h1
  refine ⟨?_, h1⟩
  rw [h3, List.length_flatten]
  show 0 + _ = _
  omega

/-- `count` is the number of bytes in the sink under *every* schedule (faults included), so an
    offset read from the counter always designates the end of the bytes actually written. -/
theorem C11_count_is_length (bufs : List Bytes) (s : Sink) (sch : List WResp)
    (h : s.count = s.data.length) :
    (writeMany bufs s sch).1.count = (writeMany bufs s sch).1.data.length :=
  writeMany_count_inv sch bufs s h

/-! ### Reading -/

/-- `read_exact(n)` with enough data: exactly the `n` bytes at `pos`, whatever the split. -/
theorem readExact_indep (data : Bytes) (n pos : Nat) (sch : List RResp) (hff : RFaultFree sch)
    (hlen : pos + n ≤ data.length) :
    let r := readExact data n pos [] sch
    r.1 = (data.drop pos).take n ∧ r.2.1 = pos + n ∧ r.2.2.2 = none := by
  obtain ⟨h1, h2, h3, _⟩ := readExact_ff hff data n pos [] hlen
  exact ⟨by simpa using h1, h2, h3⟩

/-- `read_exact(n)` with fewer than `n` bytes available: UnexpectedEof (tag 0); what was
    delivered is the true remainder of the data — never wrong bytes, never success. -/
theorem readExact_short (data : Bytes) (n pos : Nat) (sch : List RResp) (hff : RFaultFree sch)
    (hlen : data.length - pos < n) :
    let r := readExact data n pos [] sch
    r.1 = data.drop pos ∧ r.2.2.2 = some 0 := by
  obtain ⟨h1, _, h3⟩ := readExact_ff_short hff data n pos [] hlen
  exact ⟨by simpa using h1, h3⟩

/-- Under *any* schedule (faults included) the bytes `read_exact` delivers are the true bytes
    `data[pos .. pos']`. -/
theorem readExact_never_wrong (data : Bytes) (n pos : Nat) (sch : List RResp) :
    let r := readExact data n pos [] sch
    r.1 = (data.drop pos).take (r.2.1 - pos) ∧ pos ≤ r.2.1 ∧ r.2.1 - pos ≤ n := by
  rcases hr : readExact data n pos [] sch with ⟨out, pos', rest, err⟩
  obtain ⟨used, _, ho, hp, hc⟩ := readExact_char data sch n pos [] _ _ _ _ hr
  refine ⟨by simpa using ho, hp, ?_⟩
  show pos' - pos ≤ n
  rcases hc with ⟨_, _, h1, _⟩ | ⟨_, _, h1, h2⟩ | ⟨t, _, _, h1, _⟩ <;> omega

/-- `take(limit).read_to_end`: up to `limit` bytes or up to the end of the data. -/
theorem readToEndTake_indep (data : Bytes) (limit pos : Nat) (sch : List RResp)
    (hff : RFaultFree sch) :
    let r := readToEndTake data limit pos [] sch
    r.1 = (data.drop pos).take limit ∧ r.2.1 = pos + min limit (data.length - pos) ∧
      r.2.2.2 = none := by
  obtain ⟨h1, h2, h3, _⟩ := readToEndTake_ff hff data limit pos []
  exact ⟨by simpa using h1, h2, h3⟩

/-- `loadBodyIO` (seek, `read_u64`, `take(len).read_to_end`) agrees with the pure definition in
    `loadBlockLen`: the header is `slice? file off 8`, the body is what follows it, cut at the
    length the header announces or at the end of the file. -/
theorem C11_load (file : Bytes) (off : Nat) (sch : List RResp) (hff : RFaultFree sch) :
    (∀ hdr, slice? file off 8 = some hdr →
        (loadBodyIO file off sch).1 = some ((file.drop (off + 8)).take (beVal hdr)) ∧
        (loadBodyIO file off sch).2.2 = none) ∧
    (slice? file off 8 = none →
        (loadBodyIO file off sch).1 = none ∧ (loadBodyIO file off sch).2.2 = some 0) := by
  obtain ⟨h1, h2, _⟩ := loadBodyIO_ff hff file off
  exact ⟨h1, h2⟩

/-- The block obtained through the I/O layer is the block of the pure `loadBlock`. -/
theorem C11_reader (cd : Codec) (file : Bytes) (off : Nat) (sch : List RResp)
    (hff : RFaultFree sch) :
    ((loadBodyIO file off sch).1.bind cd.decompress |>.bind Block.parse) = loadBlock cd file off :=
  loadBlockIO_ff hff cd file off

/-- Successive loads share one schedule: what the first leaves is again fault-free, so the
    statement applies to every load of a run. -/
theorem C11_load_rest (file : Bytes) (off : Nat) (sch : List RResp) (hff : RFaultFree sch) :
    RFaultFree (loadBodyIO file off sch).2.1 :=
  (loadBodyIO_ff hff file off).2.2

/-! ### Everything above the loader -/

/-- The cursor reaches the file only through `load`: equal loaders, equal results. -/
theorem C11_cursor_congr {β : Type} (ops : BlockOps β) (load₁ load₂ : Nat → Option β)
    (fix : Bool) (c : RC β) (op : Op) (h : ∀ off, load₁ off = load₂ off) :
    RC.step ops load₁ fix c op = RC.step ops load₂ fix c op := by
  have : load₁ = load₂ := funext h
  rw [this]

/-- Any loader that answers each request like *some* fault-free schedule-driven load is the
    pure loader `loadCursor`. -/
theorem C11_loader (cd : Codec) (file : Bytes) (load : Nat → Option BlockCursor)
    (h : ∀ off, ∃ sch, RFaultFree sch ∧ load off = (loadBlockIO cd file off sch).map BlockCursor.ofBlock) :
    ∀ off, load off = loadCursor cd file off := by
  intro off
  obtain ⟨sch, hff, e⟩ := h off
  rw [e, loadBlockIO_ff hff, loadCursor]

/-- Cursor operations over a schedule-driven reader: the same cursor state and the same result
    as over the pure loader, for every fault-free choice of schedules. -/
theorem C11_cursor (cd : Codec) (file : Bytes) (sched : Nat → List RResp)
    (hff : ∀ off, RFaultFree (sched off)) (fix : Bool) (c : RC BlockCursor) (op : Op) :
    RC.step byteOps (ioLoader cd file sched) fix c op =
      RC.step byteOps (loadCursor cd file) fix c op :=
  C11_cursor_congr _ _ _ _ _ _
    (C11_loader cd file _ (fun off => ⟨sched off, hff off, rfl⟩))

/-- Histories of cursor operations (hence range and prefix iterators, merger sources and sorter
    chunks, which are folds of `step`): schedule independent as well. -/
theorem C11_cursor_history (cd : Codec) (file : Bytes) (sched₁ sched₂ : Nat → List RResp)
    (h₁ : ∀ off, RFaultFree (sched₁ off)) (h₂ : ∀ off, RFaultFree (sched₂ off)) (fix : Bool) :
    RC.step byteOps (ioLoader cd file sched₁) fix = RC.step byteOps (ioLoader cd file sched₂) fix := by
  funext c op
  rw [C11_cursor cd file sched₁ h₁, C11_cursor cd file sched₂ h₂]

/-- Instance for the iterators of `Grenad.Model.Iter`, which take `step` as a parameter. -/
theorem C11_range_iter (cd : Codec) (file : Bytes) (sched₁ sched₂ : Nat → List RResp)
    (h₁ : ∀ off, RFaultFree (sched₁ off)) (h₂ : ∀ off, RFaultFree (sched₂ off)) (fix : Bool)
    (it : RangeIter (RC BlockCursor)) (fuel : Nat) :
    collect (RangeIter.next (RC.step byteOps (ioLoader cd file sched₁) fix)) fuel it [] =
    collect (RangeIter.next (RC.step byteOps (ioLoader cd file sched₂) fix)) fuel it [] := by
  rw [C11_cursor_history cd file sched₁ sched₂ h₁ h₂]

/-! ### Concrete schedules -/

/-- one-byte writes -/
example : (writeAll [1, 2, 3] {} [.accept 1, .accept 1, .accept 1]).1 =
    { data := [1, 2, 3], count := 3 } := by decide
/-- `accept 0` still makes progress by one byte (a `write` returning 0 is excluded by the
    contract), oversize acceptances are clamped -/
example : (writeAll [1, 2, 3] {} [.accept 0, .accept 100]).1 =
    { data := [1, 2, 3], count := 3 } := by decide
/-- interleaved interruptions -/
example : (writeMany [[1, 2], [3], [4, 5, 6]] {}
      [.interrupted, .accept 1, .interrupted, .interrupted, .accept 1, .accept 5, .interrupted,
       .accept 2]) =
    ({ data := [1, 2, 3, 4, 5, 6], count := 6 }, [], none) := by decide
/-- the hypotheses of the theorems are satisfiable by such a schedule -/
example : WFaultFree [.interrupted, .accept 1, .interrupted, .accept 0] := by
  intro r hr t; simp at hr; rcases hr with rfl | rfl | rfl | rfl <;> simp
example : RFaultFree [.serve 1, .interrupted, .serve 3] := by
  intro r hr t; simp at hr; rcases hr with rfl | rfl | rfl <;> simp
/-- one-byte reads with interruptions -/
example : readExact [10, 11, 12, 13, 14] 3 1 [] [.serve 1, .interrupted, .serve 1, .serve 1, .serve 1] =
    ([11, 12, 13], 4, [.serve 1], none) := by simp [readExact]
/-- short data: UnexpectedEof, the bytes delivered are the true ones -/
example : readExact [10, 11, 12] 4 1 [] [.serve 1, .interrupted] = ([11, 12], 3, [], some 0) := by
  simp [readExact]
/-- `take(limit).read_to_end` stops at the end of the data -/
example : readToEndTake [10, 11, 12] 9 1 [] [.serve 1, .interrupted, .serve 7] =
    ([11, 12], 3, [], none) := by simp [readToEndTake]
/-- a block header announcing 3 bytes, loaded in 1-byte reads -/
example : (loadBodyIO ([0, 0, 0, 0, 0, 0, 0, 3, 7, 8, 9, 99])
      0 (List.replicate 20 (.serve 1))).1 = some [7, 8, 9] := by
  simp [loadBodyIO, readExact, readToEndTake, List.replicate, beVal, leVal]
/-- a family of schedules (one per block offset) satisfying the hypothesis of `C11_cursor`:
    `off` interruptions, then one-byte reads -/
example : ∀ off, RFaultFree ((fun off => List.replicate off RResp.interrupted ++
    List.replicate 64 (.serve 1)) off) := by
  intro off r hr t
  simp only [List.mem_append, List.mem_replicate] at hr
  rcases hr with ⟨_, rfl⟩ | ⟨_, rfl⟩ <;> simp
/-- the count equation of `C11_writer_count` on a sink accepting one byte at a time -/
example : (writeMany [[1, 2], [3]] {} (List.replicate 9 (.accept 1))).1.count = 3 := by decide

end Grenad.Props.C11

/-! ### The writer under an arbitrary sink schedule (`Grenad.Model.WriterIO`)

`W.writes cd log m` is the list of `write_all` calls of a complete writer run (two per emitted
block, five for the trailer); `W.runIO cd log m sch` pushes them through the sink answering from
`sch`.  `log` is the block log of `W.run`, `m` the trailer the writer wrote (= the one parsed). -/

namespace Grenad.Props.C11

open Grenad Grenad.IOM Grenad.Wave3

section
variable {cd : Codec} {cfg : WCfg} {es : List Entry} {file : Bytes} {log : List Emitted}
  {m : Meta.Meta}

/-- **C11, write side.**  The `write_all` calls of a run concatenate to the file returned by the
    pure writer, and under every fault-free schedule — whatever the split into partial writes and
    interruptions — the writer reports no error, the sink holds exactly `file` and
    `CountWrite::count` is `file.length`: the byte stream handed to the sink is a function of the
    configuration and the entries only. -/
theorem C11_writer_bytes (H : WriterHyps cd cfg es) (hrun : W.run cd cfg es = .ok (file, log))
    (hfile : file.length < 2 ^ 64) (hcount : es.length < 2 ^ 64) (hid : cd.id ≤ 5)
    (hm : Meta.parse file = .ok m) :
    (W.writes cd log m).flatten = file ∧
    ∀ sch, WFaultFree sch →
      (W.runIO cd log m sch).2.2 = none ∧ (W.runIO cd log m sch).1.data = file ∧
      (W.runIO cd log m sch).1.count = file.length := by
  have hfl := writes_flatten_run H hrun hfile hcount hid hm
  refine ⟨hfl, fun sch hff => ?_⟩
  obtain ⟨h1, h2, h3⟩ := runIO_ff cd log m hff
  exact ⟨h1, by rw [h2, hfl], by rw [h3, hfl]⟩

/-- The same without the size side conditions, for the trailer record given explicitly
    (`root` is the offset of the last block written). -/
theorem C11_writer_bytes_root (H : WriterHyps cd cfg es)
    (hrun : W.run cd cfg es = .ok (file, log)) :
    ∃ root, (W.writes cd log ⟨2, root, cd.id, es.length, cfg.levels⟩).flatten = file ∧
      ∀ sch, WFaultFree sch →
        let r := W.runIO cd log ⟨2, root, cd.id, es.length, cfg.levels⟩ sch
        r.2.2 = none ∧ r.1.data = file ∧ r.1.count = file.length := by
  obtain ⟨root, -, hf, -⟩ := run_layout H hrun
  have hfl : (W.writes cd log ⟨2, root, cd.id, es.length, cfg.levels⟩).flatten = file := by
    rw [writes_flatten _ _ _ (by simp), ← hf]
  refine ⟨root, hfl, fun sch hff => ?_⟩
  obtain ⟨h1, h2, h3⟩ := runIO_ff cd log ⟨2, root, cd.id, es.length, cfg.levels⟩ hff
  exact ⟨h1, by rw [h2, hfl], by rw [h3, hfl]⟩

/-- Two fault-free schedules cannot be told apart from the sink. -/
theorem C11_writer_indep₂ (sch₁ sch₂ : List WResp) (h₁ : WFaultFree sch₁) (h₂ : WFaultFree sch₂) :
    (W.runIO cd log m sch₁).1 = (W.runIO cd log m sch₂).1 ∧
    (W.runIO cd log m sch₁).2.2 = (W.runIO cd log m sch₂).2.2 :=
  writeMany_indep₂ _ _ _ _ h₁ h₂

/-- **C11, recorded offsets.**  Under any fault-free schedule, at the moment block number `j` of
    the log starts being written — after the first `2·j` `write_all` calls; the next two calls are
    its big-endian length prefix and its compressed body — `CountWrite::count` equals
    `log[j].offset`, the value the writer stores in the parent index entry; the sink then holds
    exactly the first `offset` bytes of the file, and the complete run is that prefix run
    continued with the remaining calls on the remaining schedule. -/
theorem C11_writer_offsets (H : WriterHyps cd cfg es) (hrun : W.run cd cfg es = .ok (file, log))
    (m : Meta.Meta) (j : Nat) (e : Emitted) (hj : log[j]? = some e) (sch : List WResp)
    (hff : WFaultFree sch) :
    let mid := writeMany ((W.writes cd log m).take (2 * j)) {} sch
    mid.2.2 = none ∧ mid.1.count = e.offset ∧ mid.1.data = file.take e.offset ∧
    WFaultFree mid.2.1 ∧
    (W.writes cd log m).drop (2 * j) =
      be64 (cd.compress e.raw).length :: cd.compress e.raw :: W.writes cd (log.drop (j + 1)) m ∧
    W.runIO cd log m sch = writeMany ((W.writes cd log m).drop (2 * j)) mid.1 mid.2.1 := by
  obtain ⟨root, -, hf, hps⟩ := run_layout H hrun
  obtain ⟨h1, h2, h3, h4, h5, h6⟩ := runIO_offsets hps m hj hff
  refine ⟨h1, h2, ?_, h4, h5, h6⟩
  rw [h3]
  obtain ⟨hsplit, -⟩ := split_at_getElem? hj
  have hoff := hps _ _ _ hsplit
  have hfm : log.flatMap (fun e => W.blockBytes cd e.raw) =
      (log.take j).flatMap (fun e => W.blockBytes cd e.raw) ++
        (log.drop j).flatMap (fun e => W.blockBytes cd e.raw) := by
    rw [← List.flatMap_append, List.take_append_drop]
  rw [hf, hoff, hfm, List.append_assoc, List.take_left]

/-- The counter value read at that moment is the prefix sum of the lengths of the calls made so
    far (`C11_writer_count_take`), whatever the schedule did to them. -/
theorem C11_writer_offsets_sum (H : WriterHyps cd cfg es)
    (hrun : W.run cd cfg es = .ok (file, log)) (m : Meta.Meta) (j : Nat) (e : Emitted)
    (hj : log[j]? = some e) :
    e.offset = (((W.writes cd log m).take (2 * j)).map List.length).sum := by
  have h := C11_writer_offsets H hrun m j e hj [] WFaultFree.nil
  have h' := (C11_writer_count_take (W.writes cd log m) (2 * j) [] WFaultFree.nil).1
  rw [← h']; exact h.2.1.symm

end

/-! #### A concrete instance: three entries, one index level below the root -/

-- the instance `wxCfg`, `wxEs`, `wxFile`, `wxLog`, `wxMeta` lives in `Grenad.Proofs.Wave3IO`

/-- hypotheses of `C11_writer_bytes` / `C11_writer_offsets` hold for the instance; conclusion for
    a schedule of interruptions and tiny acceptances -/
example : (W.runIO Codec.none wxLog wxMeta
      ([.interrupted, .accept 1, .accept 0, .interrupted] ++ List.replicate 50 (.accept 3))).1.data
    = wxFile := by
  refine ((C11_writer_bytes wxHyps wxRun wxFile_lt (by decide) (by decide)
    wxParse).2 _ ?_).2.1
  intro r hr t
  simp only [List.mem_append, List.mem_replicate, List.mem_cons, List.not_mem_nil, or_false] at hr
  rcases hr with (rfl | rfl | rfl | rfl) | ⟨_, rfl⟩ <;> simp

/-- when block 3 (offset 74, the first index block) starts being written the counter reads 74 -/
example (sch : List WResp) (hff : WFaultFree sch) :
    (writeMany ((W.writes Codec.none wxLog wxMeta).take (2 * 3)) {} sch).1.count = 74 := by
  have h : wxLog[3]?.map (·.offset) = some 74 := by
    have := wxShape.2.1
    rw [← List.getElem?_map, this]; rfl
  cases he : wxLog[3]? with
  | none => rw [he] at h; cases h
  | some e =>
    rw [he] at h
    simp only [Option.map_some, Option.some.injEq] at h
    rw [← h]
    exact (C11_writer_offsets wxHyps wxRun wxMeta 3 e he sch hff).2.1

/-- the same by evaluation, with one-byte writes -/
example : (writeMany ((W.writes Codec.none wxLog wxMeta).take 6) {}
    (List.replicate 200 (.accept 1))).1.count = 74 := by
  set_option maxRecDepth 100000 in decide

end Grenad.Props.C11

section Audit
open Grenad.Props.C11
#print axioms C11_writer_bytes
#print axioms C11_writer_bytes_root
#print axioms C11_writer_offsets
#print axioms C11_writer_offsets_sum
end Audit

/-! ### Opening a file through a scheduled source (`Grenad.Model.MetaIO`)

`Meta.parseIO b sch` is `Metadata::read_from` call by call — `seek(End(-4))`, `read_u32`,
`seek(End(-21|-22))`, `read_u64`, `read_u8`, codec check, `read_u64`, [`read_u8`] — every
`read_uN` being one `read_exact` loop answered from the schedule `sch`.  `Meta.parse b` is the
pure mirror over an in-memory cursor the rest of the model is built on. -/

namespace Grenad.Props.C11

open Grenad Grenad.IOM Grenad.Meta Grenad.MetaIO

/-- **C11, open.**  For every byte string and every fault-free schedule — reads served in pieces
    of any size, `Interrupted` answers anywhere — the open returns exactly what the pure parse
    returns (the same `Metadata` or the same error), reports no I/O fault, and leaves a
    fault-free schedule to the loads that follow. -/
theorem C11_open_indep (b : Bytes) (sch : List RResp) (hff : RFaultFree sch) :
    (parseIO b sch).1 = parse b ∧ (parseIO b sch).2.2 = none ∧ RFaultFree (parseIO b sch).2.1 :=
  parseIO_ff hff b

/-- Two fault-free schedules cannot be told apart from the result of the open. -/
theorem C11_open_indep₂ (b : Bytes) (sch₁ sch₂ : List RResp) (h₁ : RFaultFree sch₁)
    (h₂ : RFaultFree sch₂) :
    (parseIO b sch₁).1 = (parseIO b sch₂).1 ∧ (parseIO b sch₁).2.2 = (parseIO b sch₂).2.2 := by
  obtain ⟨a1, a2, _⟩ := parseIO_ff h₁ b
  obtain ⟨b1, b2, _⟩ := parseIO_ff h₂ b
  exact ⟨by rw [a1, b1], by rw [a2, b2]⟩

/-- The 22-byte V2 trailer `root = 7, codec = 5, count = 3, levels = 2`. -/
def trailerV2 : Bytes := [7, 0, 0, 0, 0, 0, 0, 0, 5, 3, 0, 0, 0, 0, 0, 0, 0, 2, 0xC4, 0xD4, 0x23, 0x67]

example : trailerV2 = encode { version := 2, root := 7, codec := 5, count := 3, levels := 2 } := by
  decide

/-- the trailer read one byte at a time, every read preceded by an interruption -/
example : parseIO trailerV2 (List.replicate 22 [RResp.interrupted, .serve 1]).flatten =
    (.ok { version := 2, root := 7, codec := 5, count := 3, levels := 2 }, [], none) := by
  simp [trailerV2, parseIO, parseIOL, readExact, List.replicate, leVal, magicV1, magicV2]

/-- the same behind 3 bytes of payload, `serve 0` (clamped to 1), oversize serves, and a schedule
    that runs out (an exhausted schedule serves everything): still the pure result, and the read
    log is the five calls of `read_from` -/
example : parseIOL ([9, 9, 9] ++ trailerV2)
      [.serve 0, .interrupted, .interrupted, .serve 100, .serve 3, .interrupted, .serve 2] =
    (.ok { version := 2, root := 7, codec := 5, count := 3, levels := 2 }, [], none,
      [(21, 4), (3, 8), (11, 1), (12, 8), (20, 1)]) := by
  simp [trailerV2, parseIOL, readExact, leVal, magicV1, magicV2]

/-- the pure parse of the same bytes -/
example : (parse trailerV2).toOption =
    some { version := 2, root := 7, codec := 5, count := 3, levels := 2 } := by decide

/-- the hypothesis of `C11_open_indep` holds for the schedule of the first example -/
example : RFaultFree (List.replicate 22 [RResp.interrupted, .serve 1]).flatten := by
  intro r hr t
  simp only [List.mem_flatten, List.mem_replicate] at hr
  obtain ⟨l, ⟨_, rfl⟩, hr⟩ := hr
  simp at hr
  rcases hr with rfl | rfl <;> simp

end Grenad.Props.C11

section AuditOpen
open Grenad.Props.C11
#print axioms C11_open_indep
#print axioms C11_open_indep₂
end AuditOpen
