/-
  C06 — The k-way merger yields the grouped union of its sources.

  `Merger.run mf sources` (the heap-driven loop of `src/merger.rs`) is compared with
  `Spec.mergeSpec` / `Spec.group` (grouping of the concatenated sources): same output, same merge
  calls in the same order with the same value order, errors exactly when a call of the fault-free
  run fails.  Sources are arbitrary in number, may be empty, and are strictly ascending.
-/
import Grenad.Proofs.MergeProofs

namespace Grenad.Props.C06

open Grenad Grenad.Merger

/-- A merge function that never fails. -/
def total (mf' : Bytes → List Bytes → Bytes) : MergeFn := fun k vs => some (mf' k vs)

/-- Any never-failing `MergeFn` is of the form `total mf'`. -/
theorem total_of_isSome (mf : MergeFn) (hmf : ∀ k vs, (mf k vs).isSome) :
    mf = total (fun k vs => (mf k vs).get (hmf k vs)) := by
  funext k vs; simp [total]

/-! ### The general statement (any merge function) -/

/-- Output and calls of `Merger.run` for an arbitrary (possibly failing) merge function:
    the output is `mergeAll` over the groups (`none` as soon as a call fails) and the calls are
    the groups up to and including the first failing one. -/
theorem C06_run (mf : MergeFn) (sources : List (List Entry))
    (hasc : ∀ s ∈ sources, StrictAsc s) :
    (run mf sources).1 = mergeAll mf (Spec.group sources.flatten) ∧
    (run mf sources).2.calls.reverse = callsSpec mf (Spec.group sources.flatten) :=
  run_spec mf sources hasc

/-! ### C06_merge -/

/-- The k-way merge equals the grouped union. -/
theorem C06_merge (mf' : Bytes → List Bytes → Bytes) (sources : List (List Entry))
    (hasc : ∀ s ∈ sources, StrictAsc s) :
    (run (total mf') sources).1 = some (Spec.mergeSpec mf' sources) := by
  rw [(run_spec _ sources hasc).1]
  exact mergeAll_total mf' _

/-- The same for a `MergeFn` that is only known never to fail. -/
theorem C06_merge' (mf : MergeFn) (hmf : ∀ k vs, (mf k vs).isSome) (sources : List (List Entry))
    (hasc : ∀ s ∈ sources, StrictAsc s) :
    (run mf sources).1 = some (Spec.mergeSpec (fun k vs => (mf k vs).get (hmf k vs)) sources) := by
  have h := C06_merge (fun k vs => (mf k vs).get (hmf k vs)) sources hasc
  rw [← total_of_isSome mf hmf] at h
  exact h

/-! ### C06_calls -/

/-- The merge function is called once per distinct key, in ascending key order, with the values
    in the order their sources were added (singletons included). -/
theorem C06_calls (mf' : Bytes → List Bytes → Bytes) (sources : List (List Entry))
    (hasc : ∀ s ∈ sources, StrictAsc s) :
    (run (total mf') sources).2.calls.reverse = Spec.group sources.flatten := by
  rw [(run_spec _ sources hasc).2]
  exact callsSpec_total mf' _

theorem C06_calls' (mf : MergeFn) (hmf : ∀ k vs, (mf k vs).isSome) (sources : List (List Entry))
    (hasc : ∀ s ∈ sources, StrictAsc s) :
    (run mf sources).2.calls.reverse = Spec.group sources.flatten := by
  have h := C06_calls (fun k vs => (mf k vs).get (hmf k vs)) sources hasc
  rw [← total_of_isSome mf hmf] at h
  exact h

/-! ### What `Spec.group` is -/

/-- Keys of `group l` are strictly ascending. -/
theorem group_keys_asc (l : List Entry) : ((Spec.group l).map (·.1)).Pairwise (· < ·) :=
  Grenad.group_keys_asc l

/-- Keys of `group l` are exactly the keys of `l`. -/
theorem group_keys (l : List Entry) (k : Bytes) :
    k ∈ (Spec.group l).map (·.1) ↔ k ∈ l.map (·.1) := mem_group_keys l k

/-- The values of key `k` are `(l.filter (·.1 = k)).map (·.2)`; no group is empty. -/
theorem group_values (l : List Entry) (k : Bytes) (vs : List Bytes) :
    (k, vs) ∈ Spec.group l ↔
      vs = (l.filter (fun e => decide (e.1 = k))).map (·.2) ∧ vs ≠ [] := mem_group l k vs

/-! ### C06_sorted -/

theorem mergeSpec_keys (mf' : Bytes → List Bytes → Bytes) (sources : List (List Entry)) :
    (Spec.mergeSpec mf' sources).map (·.1) = (Spec.group sources.flatten).map (·.1) := by
  simp [Spec.mergeSpec, List.map_map, Function.comp_def]

/-- The output is strictly ascending and its keys are exactly the union of the sources' keys. -/
theorem C06_sorted (mf' : Bytes → List Bytes → Bytes) (sources : List (List Entry))
    (hasc : ∀ s ∈ sources, StrictAsc s) :
    ∃ out, (run (total mf') sources).1 = some out ∧ StrictAsc out ∧
      ∀ k, k ∈ out.map (·.1) ↔ ∃ s ∈ sources, k ∈ s.map (·.1) := by
  refine ⟨_, C06_merge mf' sources hasc, ?_, ?_⟩
  · have := group_keys_asc sources.flatten
    rw [← mergeSpec_keys mf', List.pairwise_map] at this
    exact this
  · intro k
    rw [mergeSpec_keys, group_keys]
    simp only [List.mem_map, List.mem_flatten]
    constructor
    · rintro ⟨e, ⟨s, hs, he⟩, rfl⟩; exact ⟨s, hs, e, he, rfl⟩
    · rintro ⟨s, hs, e, he, rfl⟩; exact ⟨e, ⟨s, hs, he⟩, rfl⟩

/-! ### C06_lone -/

/-- With a merge function that is the identity on singletons, a key present in exactly one
    source maps to that source's value (and to nothing else). -/
theorem C06_lone (mf' : Bytes → List Bytes → Bytes) (hid : ∀ k v, mf' k [v] = v)
    (pre post : List (List Entry)) (s : List Entry)
    (hasc : ∀ t ∈ pre ++ s :: post, StrictAsc t)
    (k v : Bytes) (hm : (k, v) ∈ s)
    (hpre : ∀ t ∈ pre, ∀ e ∈ t, e.1 ≠ k) (hpost : ∀ t ∈ post, ∀ e ∈ t, e.1 ≠ k) :
    ∃ out, (run (total mf') (pre ++ s :: post)).1 = some out ∧ (k, v) ∈ out ∧
      ∀ v', (k, v') ∈ out → v' = v := by
  refine ⟨_, C06_merge mf' _ hasc, ?_, ?_⟩
  all_goals
    have hs : StrictAsc s := hasc s (by simp)
    have hvals : valsOf k (pre ++ s :: post).flatten = [v] := by
      rw [List.flatten_append, List.flatten_cons, valsOf_append, valsOf_append,
        valsOf_of_mem_asc hs hm]
      have h1 : valsOf k pre.flatten = [] := by
        rw [valsOf_eq_nil]; intro e he
        obtain ⟨t, ht, het⟩ := List.mem_flatten.mp he
        exact hpre t ht e het
      have h2 : valsOf k post.flatten = [] := by
        rw [valsOf_eq_nil]; intro e he
        obtain ⟨t, ht, het⟩ := List.mem_flatten.mp he
        exact hpost t ht e het
      rw [h1, h2]; rfl
  · simp only [Spec.mergeSpec, List.mem_map]
    refine ⟨(k, [v]), (mem_group _ _ _).mpr ⟨hvals.symm, by simp⟩, ?_⟩
    simp [hid]
  · intro v' hv'
    simp only [Spec.mergeSpec, List.mem_map] at hv'
    obtain ⟨⟨k', vs⟩, hg, heq⟩ := hv'
    simp only [Prod.mk.injEq] at heq
    obtain ⟨rfl, rfl⟩ := heq
    have := ((mem_group _ _ _).mp hg).1
    rw [hvals] at this
    rw [this, hid]

/-! ### C06_merge_err -/

/-- `Merger.run` fails exactly when one of the calls of the fault-free run fails. -/
theorem C06_merge_err (mf : MergeFn) (sources : List (List Entry))
    (hasc : ∀ s ∈ sources, StrictAsc s) :
    (run mf sources).1 = none ↔ ∃ g ∈ Spec.group sources.flatten, mf g.1 g.2 = none := by
  rw [(run_spec mf sources hasc).1]
  exact mergeAll_eq_none mf _

/-- When it fails, the recorded calls are the groups up to and including the first failing one;
    when it does not, all of them. -/
theorem C06_calls_err (mf : MergeFn) (sources : List (List Entry))
    (hasc : ∀ s ∈ sources, StrictAsc s) :
    (run mf sources).2.calls.reverse = callsSpec mf (Spec.group sources.flatten) :=
  (run_spec mf sources hasc).2

/-! ### Concrete instances -/

/-- Four sources (one empty); key `[1]` is in sources 0 and 2, key `[3]` in 0 and 3, `[2]` alone. -/
def exSources : List (List Entry) :=
  [ [([1], [10]), ([3], [30])], [], [([1], [11]), ([2], [20])], [([3], [31]), ([4, 0], [40])] ]

def exConcat : Bytes → List Bytes → Bytes := fun _ vs => vs.flatten

/-- Fails on key `[3]`. -/
def exFail : MergeFn := fun k vs => if k = [3] then none else some vs.flatten

instance (es : List Entry) : Decidable (StrictAsc es) := by unfold StrictAsc; infer_instance

theorem exAsc : ∀ s ∈ exSources, StrictAsc s := by decide

example : (run (total exConcat) exSources).1 =
    some [([1], [10, 11]), ([2], [20]), ([3], [30, 31]), ([4, 0], [40])] := by
  rw [C06_merge exConcat exSources exAsc]; decide

example : (run (total exConcat) exSources).2.calls.reverse =
    [([1], [[10], [11]]), ([2], [[20]]), ([3], [[30], [31]]), ([4, 0], [[40]])] := by
  rw [C06_calls exConcat exSources exAsc]; decide

example : ∀ k v, exConcat k [v] = v := by intro k v; simp [exConcat]

example : ∃ out, (run (total exConcat) exSources).1 = some out ∧ StrictAsc out ∧
    ∀ k, k ∈ out.map (·.1) ↔ ∃ s ∈ exSources, k ∈ s.map (·.1) :=
  C06_sorted exConcat exSources exAsc

/-- Key `[2]` occurs only in source 2. -/
example : ∃ out, (run (total exConcat) exSources).1 = some out ∧ (([2], [20]) : Entry) ∈ out ∧
    ∀ v', (([2], v') : Entry) ∈ out → v' = [20] :=
  C06_lone exConcat (by intro k v; simp [exConcat])
    [[([1], [10]), ([3], [30])], []] [[([3], [31]), ([4, 0], [40])]] [([1], [11]), ([2], [20])]
    exAsc [2] [20] (by decide) (by decide) (by decide)

example : (run exFail exSources).1 = none :=
  (C06_merge_err exFail exSources exAsc).mpr ⟨([3], [[30], [31]]), by decide, by decide⟩

example : (run exFail exSources).2.calls.reverse =
    [([1], [[10], [11]]), ([2], [[20]]), ([3], [[30], [31]])] := by
  rw [C06_calls_err exFail exSources exAsc]; decide

end Grenad.Props.C06

section Axioms
open Grenad.Props.C06
#print axioms C06_run
#print axioms C06_merge
#print axioms C06_merge'
#print axioms C06_calls
#print axioms C06_calls'
#print axioms C06_sorted
#print axioms C06_lone
#print axioms C06_merge_err
#print axioms C06_calls_err
#print axioms group_values
end Axioms
