/-
  C06 — The k-way merger yields the grouped union of its sources.

  `Merger.run mf sources` (the heap-driven loop of `src/merger.rs`) is compared with
  `Spec.mergeSpec` / `Spec.group` (grouping of the concatenated sources): same output, same merge
  calls in the same order with the same value order, errors exactly when a call of the fault-free
  run fails.  Sources are arbitrary in number, may be empty, and are strictly ascending.
-/
import Grenad.Proofs.MergeProofs
import Grenad.Proofs.Wave3Sorter
import Grenad.Proofs.BinHeapProofs

namespace Grenad.Props.C06

open Grenad Grenad.Merger

/-- A merge function that never fails. -/
def total (mf' : Bytes → List Bytes → Bytes) : MergeFn := fun k vs => some (mf' k vs)

/-- Any never-failing `MergeFn` is of the form `total mf'`. -/
theorem total_of_isSome (mf : MergeFn) (hmf : ∀ k vs, (mf k vs).isSome) :
    mf = total (fun k vs => (mf k vs).get (hmf k vs)) := by
  funext k vs; simp [total]

/-! ### The general statement (any merge function) -/

/-- Output and calls of `Merger.run` for an arbitrary (possibly failing) merge function:
    the output is `mergeAll` over the groups (`none` as soon as a call fails) and the calls are
    the groups up to and including the first failing one. -/
theorem C06_run (mf : MergeFn) (sources : List (List Entry))
    (hasc : ∀ s ∈ sources, StrictAsc s) :
    (run mf sources).1 = mergeAll mf (Spec.group sources.flatten) ∧
    (run mf sources).2.calls.reverse = callsSpec mf (Spec.group sources.flatten) :=
  run_spec mf sources hasc

/-! ### C06_merge -/

/-- The k-way merge equals the grouped union. -/
theorem C06_merge (mf' : Bytes → List Bytes → Bytes) (sources : List (List Entry))
    (hasc : ∀ s ∈ sources, StrictAsc s) :
    (run (total mf') sources).1 = some (Spec.mergeSpec mf' sources) := by
  rw [(run_spec _ sources hasc).1]
  exact mergeAll_total mf' _

/-- The same for a `MergeFn` that is only known never to fail. -/
theorem C06_merge' (mf : MergeFn) (hmf : ∀ k vs, (mf k vs).isSome) (sources : List (List Entry))
    (hasc : ∀ s ∈ sources, StrictAsc s) :
    (run mf sources).1 = some (Spec.mergeSpec (fun k vs => (mf k vs).get (hmf k vs)) sources) := by
  have h := C06_merge (fun k vs => (mf k vs).get (hmf k vs)) sources hasc
  rw [← total_of_isSome mf hmf] at h
  exact h

/-! ### C06_calls -/

/-- The merge function is called once per distinct key, in ascending key order, with the values
    in the order their sources were added (singletons included). -/
theorem C06_calls (mf' : Bytes → List Bytes → Bytes) (sources : List (List Entry))
    (hasc : ∀ s ∈ sources, StrictAsc s) :
    (run (total mf') sources).2.calls.reverse = Spec.group sources.flatten := by
  rw [(run_spec _ sources hasc).2]
  exact callsSpec_total mf' _

theorem C06_calls' (mf : MergeFn) (hmf : ∀ k vs, (mf k vs).isSome) (sources : List (List Entry))
    (hasc : ∀ s ∈ sources, StrictAsc s) :
    (run mf sources).2.calls.reverse = Spec.group sources.flatten := by
  have h := C06_calls (fun k vs => (mf k vs).get (hmf k vs)) sources hasc
  rw [← total_of_isSome mf hmf] at h
  exact h

/-! ### What `Spec.group` is -/

/-- Keys of `group l` are strictly ascending. -/
theorem group_keys_asc (l : List Entry) : ((Spec.group l).map (·.1)).Pairwise (· < ·) :=
  Grenad.group_keys_asc l

/-- Keys of `group l` are exactly the keys of `l`. -/
theorem group_keys (l : List Entry) (k : Bytes) :
    k ∈ (Spec.group l).map (·.1) ↔ k ∈ l.map (·.1) := mem_group_keys l k

/-- The values of key `k` are `(l.filter (·.1 = k)).map (·.2)`; no group is empty. -/
theorem group_values (l : List Entry) (k : Bytes) (vs : List Bytes) :
    (k, vs) ∈ Spec.group l ↔
      vs = (l.filter (fun e => decide (e.1 = k))).map (·.2) ∧ vs ≠ [] := mem_group l k vs

/-! ### C06_sorted -/

theorem mergeSpec_keys (mf' : Bytes → List Bytes → Bytes) (sources : List (List Entry)) :
    (Spec.mergeSpec mf' sources).map (·.1) = (Spec.group sources.flatten).map (·.1) := by
  simp [Spec.mergeSpec, List.map_map, Function.comp_def]

/-- The output is strictly ascending and its keys are exactly the union of the sources' keys. -/
theorem C06_sorted (mf' : Bytes → List Bytes → Bytes) (sources : List (List Entry))
    (hasc : ∀ s ∈ sources, StrictAsc s) :
    ∃ out, (run (total mf') sources).1 = some out ∧ StrictAsc out ∧
      ∀ k, k ∈ out.map (·.1) ↔ ∃ s ∈ sources, k ∈ s.map (·.1) := by
  refine ⟨_, C06_merge mf' sources hasc, ?_, ?_⟩
  · have := group_keys_asc sources.flatten
    rw [← mergeSpec_keys mf', List.pairwise_map] at this
    exact this
  · intro k
    rw [mergeSpec_keys, group_keys]
    simp only [List.mem_map, List.mem_flatten]
    constructor
    · rintro ⟨e, ⟨s, hs, he⟩, rfl⟩; exact ⟨s, hs, e, he, rfl⟩
    · rintro ⟨s, hs, e, he, rfl⟩; exact ⟨e, ⟨s, hs, he⟩, rfl⟩

/-! ### C06_lone -/

/-- With a merge function that is the identity on singletons, a key present in exactly one
    source maps to that source's value (and to nothing else). -/
theorem C06_lone (mf' : Bytes → List Bytes → Bytes) (hid : ∀ k v, mf' k [v] = v)
    (pre post : List (List Entry)) (s : List Entry)
    (hasc : ∀ t ∈ pre ++ s :: post, StrictAsc t)
    (k v : Bytes) (hm : (k, v) ∈ s)
    (hpre : ∀ t ∈ pre, ∀ e ∈ t, e.1 ≠ k) (hpost : ∀ t ∈ post, ∀ e ∈ t, e.1 ≠ k) :
    ∃ out, (run (total mf') (pre ++ s :: post)).1 = some out ∧ (k, v) ∈ out ∧
      ∀ v', (k, v') ∈ out → v' = v := by
  refine ⟨_, C06_merge mf' _ hasc, ?_, ?_⟩
  all_goals
    have hs : StrictAsc s := hasc s (by simp)
    have hvals : valsOf k (pre ++ s :: post).flatten = [v] := by
      rw [List.flatten_append, List.flatten_cons, valsOf_append, valsOf_append,
        valsOf_of_mem_asc hs hm]
      have h1 : valsOf k pre.flatten = [] := by
        rw [valsOf_eq_nil]; intro e he
        obtain ⟨t, ht, het⟩ := List.mem_flatten.mp he
        exact hpre t ht e het
      have h2 : valsOf k post.flatten = [] := by
        rw [valsOf_eq_nil]; intro e he
        obtain ⟨t, ht, het⟩ := List.mem_flatten.mp he
        exact hpost t ht e het
      rw [h1, h2]; rfl
  · simp only [Spec.mergeSpec, List.mem_map]
    refine ⟨(k, [v]), (mem_group _ _ _).mpr ⟨hvals.symm, by simp⟩, ?_⟩
    simp [hid]
  · intro v' hv'
    simp only [Spec.mergeSpec, List.mem_map] at hv'
    obtain ⟨⟨k', vs⟩, hg, heq⟩ := hv'
    simp only [Prod.mk.injEq] at heq
    obtain ⟨rfl, rfl⟩ := heq
    have := ((mem_group _ _ _).mp hg).1
    rw [hvals] at this
    rw [this, hid]

/-! ### C06_merge_err -/

/-- `Merger.run` fails exactly when one of the calls of the fault-free run fails. -/
theorem C06_merge_err (mf : MergeFn) (sources : List (List Entry))
    (hasc : ∀ s ∈ sources, StrictAsc s) :
    (run mf sources).1 = none ↔ ∃ g ∈ Spec.group sources.flatten, mf g.1 g.2 = none := by
  rw [(run_spec mf sources hasc).1]
  exact mergeAll_eq_none mf _

/-- When it fails, the recorded calls are the groups up to and including the first failing one;
    when it does not, all of them. -/
theorem C06_calls_err (mf : MergeFn) (sources : List (List Entry))
    (hasc : ∀ s ∈ sources, StrictAsc s) :
    (run mf sources).2.calls.reverse = callsSpec mf (Spec.group sources.flatten) :=
  (run_spec mf sources hasc).2

/-! ### Concrete instances -/

/-- Four sources (one empty); key `[1]` is in sources 0 and 2, key `[3]` in 0 and 3, `[2]` alone. -/
def exSources : List (List Entry) :=
  [ [([1], [10]), ([3], [30])], [], [([1], [11]), ([2], [20])], [([3], [31]), ([4, 0], [40])] ]

def exConcat : Bytes → List Bytes → Bytes := fun _ vs => vs.flatten

/-- Fails on key `[3]`. -/
def exFail : MergeFn := fun k vs => if k = [3] then none else some vs.flatten

instance (es : List Entry) : Decidable (StrictAsc es) := by unfold StrictAsc; infer_instance

theorem exAsc : ∀ s ∈ exSources, StrictAsc s := by decide

example : (run (total exConcat) exSources).1 =
    some [([1], [10, 11]), ([2], [20]), ([3], [30, 31]), ([4, 0], [40])] := by
  rw [C06_merge exConcat exSources exAsc]; decide

example : (run (total exConcat) exSources).2.calls.reverse =
    [([1], [[10], [11]]), ([2], [[20]]), ([3], [[30], [31]]), ([4, 0], [[40]])] := by
  rw [C06_calls exConcat exSources exAsc]; decide

example : ∀ k v, exConcat k [v] = v := by intro k v; simp [exConcat]

example : ∃ out, (run (total exConcat) exSources).1 = some out ∧ StrictAsc out ∧
    ∀ k, k ∈ out.map (·.1) ↔ ∃ s ∈ exSources, k ∈ s.map (·.1) :=
  C06_sorted exConcat exSources exAsc

/-- Key `[2]` occurs only in source 2. -/
example : ∃ out, (run (total exConcat) exSources).1 = some out ∧ (([2], [20]) : Entry) ∈ out ∧
    ∀ v', (([2], v') : Entry) ∈ out → v' = [20] :=
  C06_lone exConcat (by intro k v; simp [exConcat])
    [[([1], [10]), ([3], [30])], []] [[([3], [31]), ([4, 0], [40])]] [([1], [11]), ([2], [20])]
    exAsc [2] [20] (by decide) (by decide) (by decide)

example : (run exFail exSources).1 = none :=
  (C06_merge_err exFail exSources exAsc).mpr ⟨([3], [[30], [31]]), by decide, by decide⟩

example : (run exFail exSources).2.calls.reverse =
    [([1], [[10], [11]]), ([2], [[20]]), ([3], [[30], [31]])] := by
  rw [C06_calls_err exFail exSources exAsc]; decide

end Grenad.Props.C06

section Axioms
open Grenad.Props.C06
#print axioms C06_run
#print axioms C06_merge
#print axioms C06_merge'
#print axioms C06_calls
#print axioms C06_calls'
#print axioms C06_sorted
#print axioms C06_lone
#print axioms C06_merge_err
#print axioms C06_calls_err
#print axioms group_values
end Axioms

/-!
  ## Assembly (wave 3): the merger between files; the heap's shape

  `Wave3.Admissible`, `Wave3.SizesOk`, `Wave3.RoundTrips`, `Wave3.yielded`: see
  Grenad/Proofs/Wave3Sorter.lean (`RoundTrips cd cfg es` is the conclusion of `C01_roundtrip`).
  `scanForward`, `reader`: the byte-level reader of Grenad/Props/C01.lean.
-/
namespace Grenad.Props.C06

open Grenad Grenad.Merger Grenad.Wave3 Grenad.Assembly Grenad.Props.C01

/-! ### C06_into_writer -/

/-- The merged output is strictly ascending (whatever the sources). -/
theorem mergeSpec_asc (mf' : Bytes → List Bytes → Bytes) (sources : List (List Entry)) :
    StrictAsc (Spec.mergeSpec mf' sources) := by
  rw [mergeSpec_eq_G]; exact G_asc mf' _

/-- Sizes of the merged output: keys are source keys, values are outputs of the merge function
    on the groups, and there are at most as many pairs as in all sources together. -/
theorem mergeSpec_sizes (mf' : Bytes → List Bytes → Bytes) (sources : List (List Entry))
    (hk : ∀ s ∈ sources, ∀ e ∈ s, e.1.length < 2 ^ 32)
    (hv : ∀ g ∈ Spec.group sources.flatten, (mf' g.1 g.2).length < 2 ^ 32)
    (hn : totalLen sources < 2 ^ 64) : SizesOk (Spec.mergeSpec mf' sources) := by
  refine sizes_of_keys (kvs := sources.flatten) (mergeSpec_asc mf' sources) ?_ ?_ ?_ ?_
  · intro k hk'
    rw [mergeSpec_keys, group_keys] at hk'
    exact hk'
  · intro e he
    obtain ⟨s, hs, hes⟩ := List.mem_flatten.mp he
    exact hk s hs e hes
  · intro e he
    simp only [Spec.mergeSpec, List.mem_map] at he
    obtain ⟨g, hg, rfl⟩ := he
    exact hv g hg
  · rw [List.length_flatten]; exact hn

/-- **C06_into_writer.**  Streaming the merger into a writer produces a file with exactly the
    merged content.  Sources strictly ascending, merge function total; the writer configuration
    is any one admitted by `C01_roundtrip` (lawful codec with id ≤ 5, any block size, at most 255
    index levels, interval ≥ 1); source keys and MERGED values shorter than `2^32` bytes, fewer
    than `2^64` pairs in all.  Then the merger returns `out = Spec.mergeSpec mf' sources`, `out`
    is strictly ascending, `W.run cd wcfg out` succeeds, and — under the two output-size side
    conditions of `C01_roundtrip` — the file opens with `count = out.length` and its forward
    scan returns exactly `out` (then `None`). -/
theorem C06_into_writer (mf' : Bytes → List Bytes → Bytes) (sources : List (List Entry))
    (hasc : ∀ s ∈ sources, StrictAsc s)
    (hk : ∀ s ∈ sources, ∀ e ∈ s, e.1.length < 2 ^ 32)
    (hv : ∀ g ∈ Spec.group sources.flatten, (mf' g.1 g.2).length < 2 ^ 32)
    (hn : totalLen sources < 2 ^ 64)
    (cd : Codec) (wcfg : WCfg) (hlaw : cd.Lawful) (hid : cd.id ≤ 5) (hlv : wcfg.levels ≤ 255)
    (hiv : 1 ≤ wcfg.interval) :
    ∃ out, (run (total mf') sources).1 = some out ∧ out = Spec.mergeSpec mf' sources ∧
      StrictAsc out ∧
      ∃ file log, W.run cd wcfg out = .ok (file, log) ∧
        (file.length < 2 ^ 64 → (∀ e ∈ log, e.raw.length < 2 ^ 32) →
          ∃ m, Meta.parse file = .ok m ∧ m.count = out.length ∧ m.codec = cd.id ∧
            scanForward cd file (out.length + 1) (RC.new m) =
              out.map (fun e => Res.ok (some e)) ++ [Res.ok none] ∧
            yielded (scanForward cd file (out.length + 1) (RC.new m)) = out) := by
  refine ⟨_, C06_merge mf' sources hasc, rfl, mergeSpec_asc mf' sources, ?_⟩
  obtain ⟨file, log, hrun, h⟩ := roundTrips ⟨hlaw, hid, hlv, hiv⟩ (mergeSpec_asc mf' sources)
    (mergeSpec_sizes mf' sources hk hv hn)
  refine ⟨file, log, hrun, fun h1 h2 => ?_⟩
  obtain ⟨m, hm, g1, g2, g3, -, g5⟩ := h h1 h2
  exact ⟨m, hm, g1, g2, g3, g5⟩

/-- The same with the packaged conclusion (backward scan included) and the size hypotheses on the
    output itself. -/
theorem C06_into_writer' (mf' : Bytes → List Bytes → Bytes) (sources : List (List Entry))
    (hasc : ∀ s ∈ sources, StrictAsc s) (hs : SizesOk (Spec.mergeSpec mf' sources))
    (cd : Codec) (wcfg : WCfg) (A : Admissible cd wcfg) :
    (run (total mf') sources).1 = some (Spec.mergeSpec mf' sources) ∧
      RoundTrips cd wcfg (Spec.mergeSpec mf' sources) :=
  ⟨C06_merge mf' sources hasc, roundTrips A (mergeSpec_asc mf' sources) hs⟩

/-! ### C06_sources_are_lists -/

/-- A source of the merger as it exists on disk: the bytes `file` written by `W.run cd cfg es`
    (with the block log), under all the hypotheses of C01 (`Assembly.Setting`). -/
structure SourceFile where
  cd : Codec
  cfg : WCfg
  es : List Entry
  file : Bytes
  log : List Emitted
  setting : Setting cd cfg es file log

/-- **C06_sources_are_lists.**  Each source file opens, and `next()` on its fresh byte-level
    cursor yields exactly the entries it was written from, in order, then `None`
    (`C01_roundtrip_of_run`); these lists are strictly ascending.  This is what justifies
    modelling a merger source as the list its cursor yields: the merger over the files' cursors
    is `Merger.run` over `fs.map (·.es)`, whose output is the grouped union. -/
theorem C06_sources_are_lists (fs : List SourceFile) :
    (∀ f ∈ fs, ∃ m, Meta.parse f.file = .ok m ∧ m.count = f.es.length ∧
        scanForward f.cd f.file (f.es.length + 1) (RC.new m) =
          f.es.map (fun e => Res.ok (some e)) ++ [Res.ok none] ∧
        yielded (scanForward f.cd f.file (f.es.length + 1) (RC.new m)) = f.es) ∧
    (∀ s ∈ fs.map (·.es), StrictAsc s) ∧
    ∀ mf', (run (total mf') (fs.map (·.es))).1 = some (Spec.mergeSpec mf' (fs.map (·.es))) := by
  have hasc : ∀ s ∈ fs.map (·.es), StrictAsc s := by
    intro s hs
    obtain ⟨f, -, rfl⟩ := List.mem_map.mp hs
    exact f.setting.H.asc
  exact ⟨fun f _ => setting_yields f.setting, hasc, fun mf' => C06_merge mf' _ hasc⟩

/-- **From files to a file.**  Merging written files and streaming the result into a writer:
    `C06_sources_are_lists` and `C06_into_writer` chained (the source keys are shorter than
    `2^32` because the files were written). -/
theorem C06_files_into_writer (mf' : Bytes → List Bytes → Bytes) (fs : List SourceFile)
    (hv : ∀ g ∈ Spec.group (fs.map (·.es)).flatten, (mf' g.1 g.2).length < 2 ^ 32)
    (hn : totalLen (fs.map (·.es)) < 2 ^ 64) (cd : Codec) (wcfg : WCfg) (A : Admissible cd wcfg) :
    (run (total mf') (fs.map (·.es))).1 = some (Spec.mergeSpec mf' (fs.map (·.es))) ∧
      RoundTrips cd wcfg (Spec.mergeSpec mf' (fs.map (·.es))) := by
  obtain ⟨-, hasc, -⟩ := C06_sources_are_lists fs
  refine C06_into_writer' mf' _ hasc (mergeSpec_sizes mf' _ ?_ hv hn) cd wcfg A
  intro s hs e he
  obtain ⟨f, -, rfl⟩ := List.mem_map.mp hs
  exact (f.setting.H.lens e he).1

/-! ### C06_heap_shape_irrelevant -/

/-- **C06_heap_shape_irrelevant.**  The model selects the next head with `heapMin` over a list in
    arbitrary order.  `MergerIter::next` is invariant under permutation of that list: two mergers
    whose heaps hold the same entries (with pairwise distinct `(key, idx)` pairs) in any two
    orders return the same result, record the same call, and their new heaps again hold the same
    entries.  This is the formal content of "the binary heap's internal shape is unobservable". -/
theorem C06_heap_shape_irrelevant (mf : MergeFn) (m m' : Merger)
    (hne : m.heap.Pairwise (fun a b => (a.key, a.idx) ≠ (b.key, b.idx)))
    (hp : m.heap.Perm m'.heap) (hc : m.calls = m'.calls) :
    (next mf m).2 = (next mf m').2 ∧
    (next mf m).1.heap.Perm (next mf m').1.heap ∧
    (next mf m).1.calls = (next mf m').1.calls :=
  next_perm mf m m' ((keyIdxNe_iff _).mpr hne) hp hc

/-- The hypothesis is an invariant of every run: after any number of `next` calls from
    `Merger.start sources` (any sources, any merge function) the heap entries have pairwise
    distinct source indices, hence pairwise distinct `(key, idx)` pairs. -/
theorem C06_heap_distinct (mf : MergeFn) (sources : List (List Entry)) (n : Nat) :
    (nextN mf n (start sources)).heap.Pairwise (fun a b => a.idx ≠ b.idx) ∧
    (nextN mf n (start sources)).heap.Pairwise (fun a b => (a.key, a.idx) ≠ (b.key, b.idx)) :=
  ⟨(run_keyIdxNe mf sources n).1, (keyIdxNe_iff _).mp (run_keyIdxNe mf sources n).2⟩

/-- Whole runs: draining a merger whose heap is ANY permutation of the initial heap gives the
    output and the calls of `Merger.run`. -/
theorem C06_heap_shape_irrelevant_run (mf : MergeFn) (sources : List (List Entry)) (m' : Merger)
    (hp : (start sources).heap.Perm m'.heap) (hc : m'.calls = []) :
    (Merger.collect mf (totalLen sources + 1) m' []).1 = (run mf sources).1 ∧
    (Merger.collect mf (totalLen sources + 1) m' []).2.calls = (run mf sources).2.calls := by
  have := collect_perm mf (totalLen sources + 1) (start sources) m' [] (start_idxNe sources) hp
    (by rw [hc]; rfl)
  exact ⟨this.1.symm, this.2.symm⟩

/-! ### Concrete instances (wave 3) -/

def exWCfg : WCfg := { blockSize := 0, minBlock := 28, interval := 2, levels := 2 }

/-- `C06_into_writer` on `exSources` / `exConcat`: the hypotheses are satisfiable. -/
example : ∃ out, (run (total exConcat) exSources).1 = some out ∧
    out = [([1], [10, 11]), ([2], [20]), ([3], [30, 31]), ([4, 0], [40])] ∧ StrictAsc out ∧
    ∃ file log, W.run Codec.none exWCfg out = .ok (file, log) := by
  obtain ⟨out, h1, h2, h3, file, log, h4, -⟩ := C06_into_writer exConcat exSources exAsc
    (by decide) (by decide) (by decide) Codec.none exWCfg (fun _ => rfl) (by decide) (by decide)
    (by decide)
  exact ⟨out, h1, by rw [h2]; decide, h3, file, log, h4⟩

/-- The file of the C01 instance (twelve entries, eight blocks) as a merger source. -/
def exSrcFile : SourceFile :=
  ⟨Codec.none, Grenad.Props.C01.exCfg, exEs, exFile, exLog, exSetting⟩

/-- `C06_sources_are_lists` / `C06_files_into_writer` on an instance: the file merged with
    itself (every key twice, values concatenated) and streamed into a writer. -/
example : RoundTrips Codec.none exWCfg (Spec.mergeSpec exConcat [exEs, exEs]) :=
  (C06_files_into_writer exConcat [exSrcFile, exSrcFile] (by decide) (by decide) Codec.none exWCfg
    ⟨fun _ => rfl, by decide, by decide, by decide⟩).2

example : ∃ m, Meta.parse exFile = .ok m ∧
    yielded (scanForward Codec.none exFile 13 (RC.new m)) = exEs := by
  obtain ⟨m, hm, -, -, h⟩ := (C06_sources_are_lists [exSrcFile]).1 exSrcFile (by simp)
  exact ⟨m, hm, h⟩

/-- Two orders of the same heap. -/
def exHeapA : List MSrc :=
  [⟨0, [([1], [10]), ([3], [30])]⟩, ⟨2, [([1], [11]), ([2], [20])]⟩, ⟨3, [([3], [31])]⟩]
def exHeapB : List MSrc :=
  [⟨3, [([3], [31])]⟩, ⟨2, [([1], [11]), ([2], [20])]⟩, ⟨0, [([1], [10]), ([3], [30])]⟩]

example : (next (total exConcat) ⟨exHeapA, []⟩).2 = (next (total exConcat) ⟨exHeapB, []⟩).2 :=
  (C06_heap_shape_irrelevant (total exConcat) ⟨exHeapA, []⟩ ⟨exHeapB, []⟩ (by decide) (by decide)
    rfl).1

/-- The hypothesis cannot be dropped: with two heads carrying the same `(key, idx)` the popped
    order — hence the value order handed to the merge function — depends on the list order. -/
example : (next (total exConcat) ⟨[⟨0, [([1], [10])]⟩, ⟨0, [([1], [11])]⟩], []⟩).2 ≠
    (next (total exConcat) ⟨[⟨0, [([1], [11])]⟩, ⟨0, [([1], [10])]⟩], []⟩).2 := by decide

end Grenad.Props.C06

section AxiomsWave3
open Grenad.Props.C06
#print axioms mergeSpec_sizes
#print axioms C06_into_writer
#print axioms C06_into_writer'
#print axioms C06_sources_are_lists
#print axioms C06_files_into_writer
#print axioms C06_heap_shape_irrelevant
#print axioms C06_heap_distinct
#print axioms C06_heap_shape_irrelevant_run
end AxiomsWave3

/-!
  ## The binary heap itself (reduction of the trusted base)

  `Grenad.Model.Merger` replaces `std::collections::BinaryHeap` by its specification (a list with
  `heapMin` / `heapPop`).  `Grenad.Model.BinHeap` models the data structure — the backing array,
  `push` = append + `sift_up`, `pop` = take the last item, exchange it with the root,
  `sift_down_to_bottom` + `sift_up` (the std algorithm), `peek` = `data[0]` — and `MergerH`, the
  merger of `src/merger.rs` over it.  Here: the binary heap implements the specification, and
  `MergerH.runH` has the output and the calls of `Merger.run`, so every C06 theorem holds for it.
  Helper lemmas: Grenad/Proofs/BinHeapProofs.lean (namespace `Grenad.BinHeapP`).
-/
namespace Grenad.Props.C06

set_option autoImplicit false

open Grenad Grenad.Merger Grenad.MergerH Grenad.Wave3

/-! ### The data structure against its specification -/

/-- `push` keeps the heap order and adds exactly the pushed element (any heap, any element). -/
theorem C06_binary_heap_push (h : BinHeap) (x : MSrc) (ho : BinHeapP.HeapOrdered h) :
    BinHeapP.HeapOrdered (h.push x) ∧ (h.push x).toList.Perm (x :: h.toList) :=
  ⟨BinHeapP.push_ordered ho x, BinHeapP.push_perm h x⟩

/-- `pop` on an ordered heap (no distinctness needed): `none` exactly on the empty heap; otherwise
    the root, which pops no later than every element, and an ordered heap holding the others. -/
theorem C06_binary_heap_pop_ordered (h : BinHeap) (ho : BinHeapP.HeapOrdered h) :
    (h.pop = none ↔ h.toList = []) ∧
    ∀ m h', h.pop = some (m, h') →
      h.peek = some m ∧ h.toList.Perm (m :: h'.toList) ∧ BinHeapP.HeapOrdered h' ∧
      ∀ x ∈ h.toList, x.before m = false := by
  refine ⟨BinHeapP.pop_eq_none, fun m h' hp => ?_⟩
  obtain ⟨h1, h2, h3⟩ := BinHeapP.pop_some ho hp
  exact ⟨h1, h2, h3, (BinHeapP.peek_le ho h1).2⟩

/-- **`peek` = `heapMin`** on an ordered heap with pairwise distinct `(key, idx)` pairs. -/
theorem C06_binary_heap_peek (h : BinHeap) (ho : BinHeapP.HeapOrdered h)
    (hne : h.toList.Pairwise (fun a b => (a.key, a.idx) ≠ (b.key, b.idx))) :
    h.peek = heapMin h.toList :=
  BinHeapP.peek_eq_heapMin ho ((keyIdxNe_iff _).mpr hne)

/-- **`pop` = `heapPop`** on an ordered heap with pairwise distinct `(key, idx)` pairs: both
    return `none`, or `pop` returns the very element `heapPop` selects on the element list and an
    ordered heap whose elements are a permutation of `heapPop`'s remainder. -/
theorem C06_binary_heap_pop (h : BinHeap) (ho : BinHeapP.HeapOrdered h)
    (hne : h.toList.Pairwise (fun a b => (a.key, a.idx) ≠ (b.key, b.idx))) :
    (h.pop = none ∧ heapPop h.toList = none) ∨
    ∃ m h' r, h.pop = some (m, h') ∧ heapPop h.toList = some (m, r) ∧ h'.toList.Perm r ∧
      BinHeapP.HeapOrdered h' := by
  rcases BinHeapP.binheap_pop_spec ho ((keyIdxNe_iff _).mpr hne) with h1 | ⟨m, h', r, h1, h2, h3, h4, -⟩
  · exact Or.inl h1
  · exact Or.inr ⟨m, h', r, h1, h2, h3, h4⟩

/-- The distinctness hypothesis cannot be dropped: with two entries carrying the same
    `(key, idx)` pair the binary heap and `heapPop` may select different ones. -/
example : ∃ h : BinHeap, BinHeapP.HeapOrdered h ∧
    (h.pop).map (·.1) ≠ (heapPop h.toList).map (·.1) := by
  refine ⟨(BinHeap.empty.push ⟨0, [([1], [10])]⟩).push ⟨0, [([1], [11])]⟩, ?_, by decide⟩
  exact BinHeapP.push_ordered (BinHeapP.push_ordered BinHeapP.empty_ordered _) _

/-! ### The merger on the binary heap -/

/-- One step: `MergerIter::next` on the binary heap against `Merger.next` on a list heap holding
    the same entries (pairwise distinct `(key, idx)` pairs): same result, same calls, the new
    binary heap is ordered and again holds the entries of the new list heap. -/
theorem C06_binary_heap_step (mf : MergeFn) (mh : MergerH) (m : Merger)
    (ho : BinHeapP.HeapOrdered mh.heap)
    (hne : m.heap.Pairwise (fun a b => (a.key, a.idx) ≠ (b.key, b.idx)))
    (hp : mh.heap.toList.Perm m.heap) (hc : mh.calls = m.calls) :
    (nextH mf mh).2 = (next mf m).2 ∧
    BinHeapP.HeapOrdered (nextH mf mh).1.heap ∧
    (nextH mf mh).1.heap.toList.Perm (next mf m).1.heap ∧
    (nextH mf mh).1.calls = (next mf m).1.calls :=
  BinHeapP.nextH_sim mf mh m ho ((keyIdxNe_iff _).mpr hne) hp hc

/-- **C06_binary_heap_refines.**  For ALL sources (sorted or not, empty or not) and every merge
    function (failing or not), the merger running on the array-based binary heap returns the
    output of `Merger.run` and records the same merge calls.  (Simulation: the binary heap's
    element list is always a permutation of the list-model heap, whose entries have pairwise
    distinct source indices: `C06_heap_distinct`, `C06_heap_shape_irrelevant`.) -/
theorem C06_binary_heap_refines (mf : MergeFn) (sources : List (List Entry)) :
    (runH mf sources).1 = (run mf sources).1 ∧
    (runH mf sources).2.calls = (run mf sources).2.calls :=
  BinHeapP.runH_eq_run mf sources

/-- `C06_run` on the binary heap: output and calls for an arbitrary merge function. -/
theorem C06_run_binary_heap (mf : MergeFn) (sources : List (List Entry))
    (hasc : ∀ s ∈ sources, StrictAsc s) :
    (runH mf sources).1 = mergeAll mf (Spec.group sources.flatten) ∧
    (runH mf sources).2.calls.reverse = callsSpec mf (Spec.group sources.flatten) := by
  rw [(C06_binary_heap_refines mf sources).1, (C06_binary_heap_refines mf sources).2]
  exact C06_run mf sources hasc

/-- **C06_merge_binary_heap.**  The k-way merge on the binary heap equals the grouped union. -/
theorem C06_merge_binary_heap (mf' : Bytes → List Bytes → Bytes) (sources : List (List Entry))
    (hasc : ∀ s ∈ sources, StrictAsc s) :
    (runH (total mf') sources).1 = some (Spec.mergeSpec mf' sources) := by
  rw [(C06_binary_heap_refines _ sources).1]
  exact C06_merge mf' sources hasc

/-- `C06_calls` on the binary heap. -/
theorem C06_calls_binary_heap (mf' : Bytes → List Bytes → Bytes) (sources : List (List Entry))
    (hasc : ∀ s ∈ sources, StrictAsc s) :
    (runH (total mf') sources).2.calls.reverse = Spec.group sources.flatten := by
  rw [(C06_binary_heap_refines _ sources).2]
  exact C06_calls mf' sources hasc

/-- `C06_merge_err` on the binary heap. -/
theorem C06_merge_err_binary_heap (mf : MergeFn) (sources : List (List Entry))
    (hasc : ∀ s ∈ sources, StrictAsc s) :
    (runH mf sources).1 = none ↔ ∃ g ∈ Spec.group sources.flatten, mf g.1 g.2 = none := by
  rw [(C06_binary_heap_refines mf sources).1]
  exact C06_merge_err mf sources hasc

/-! ### Concrete instances (binary heap) -/

/-- A concrete merge evaluated on the binary heap (four sources, one empty). -/
example : (runH (total exConcat) exSources).1 =
    some [([1], [10, 11]), ([2], [20]), ([3], [30, 31]), ([4, 0], [40])] := by decide

example : (runH (total exConcat) exSources).2.calls.reverse =
    [([1], [[10], [11]]), ([2], [[20]]), ([3], [[30], [31]]), ([4, 0], [[40]])] := by decide

/-- The same through the theorem. -/
example : (runH (total exConcat) exSources).1 =
    some [([1], [10, 11]), ([2], [20]), ([3], [30, 31]), ([4, 0], [40])] := by
  rw [C06_merge_binary_heap exConcat exSources exAsc]; decide

/-- Unsorted sources with a failing merge function: still the same as `Merger.run`. -/
example : (runH exFail [[([3], [1]), ([1], [2])], [([3], [4])]]).1 =
    (run exFail [[([3], [1]), ([1], [2])], [([3], [4])]]).1 :=
  (C06_binary_heap_refines _ _).1

/-- Seven pushes (descending keys, so every push sifts up to the root), then pops: the heap is
    ordered throughout and pops in `(key, idx)` order. -/
def exBinHeap : BinHeap :=
  [6, 5, 4, 3, 2, 1, 0].foldl (fun h (i : Nat) => h.push ⟨i, [([UInt8.ofNat i], [])]⟩) BinHeap.empty

example : exBinHeap.toList.map (·.idx) = [0, 3, 1, 6, 4, 5, 2] := by decide

example : BinHeapP.HeapOrdered exBinHeap := by
  unfold exBinHeap
  simp only [List.foldl_cons, List.foldl_nil]
  repeat apply BinHeapP.push_ordered
  exact BinHeapP.empty_ordered

example : exBinHeap.pop.map (fun p => (p.1.idx, p.2.toList.map (·.idx))) =
    some (0, [1, 3, 2, 6, 4, 5]) := by decide

example : exBinHeap.peek = heapMin exBinHeap.toList :=
  C06_binary_heap_peek _ (by
    unfold exBinHeap
    simp only [List.foldl_cons, List.foldl_nil]
    repeat apply BinHeapP.push_ordered
    exact BinHeapP.empty_ordered) (by decide)

end Grenad.Props.C06

section AxiomsBinHeap
open Grenad.Props.C06
#print axioms C06_binary_heap_push
#print axioms C06_binary_heap_pop_ordered
#print axioms C06_binary_heap_peek
#print axioms C06_binary_heap_pop
#print axioms C06_binary_heap_step
#print axioms C06_binary_heap_refines
#print axioms C06_run_binary_heap
#print axioms C06_merge_binary_heap
#print axioms C06_calls_binary_heap
#print axioms C06_merge_err_binary_heap
end AxiomsBinHeap
