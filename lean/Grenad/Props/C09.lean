/-
  C09 — every file finished by the writer is a well-formed version-2 file.

  Blocks `be64 len ++ compress raw` are laid out back to back from offset 0 and followed by the
  22-byte trailer (`le64 root ++ [codec id] ++ le64 count ++ [levels] ++ le32 0x6723D4C4`); the
  data blocks hold the inserted entries in order; the items of the index blocks of level `ℓ`
  are, in emission order, the pointers `(last key, be64 offset)` to the blocks of level `ℓ - 1`
  in emission order; the last block is the root, of level `levels + 1`.
-/
import Grenad.Proofs.WriterTreeDecode
import Grenad.Generated.Constants

namespace Grenad.Props.C09

open Grenad

/-- The framed bytes of one block. -/
def framed (cd : Codec) (e : Emitted) : Bytes :=
  be64 (cd.compress e.raw).length ++ cd.compress e.raw

/-- `file`, whose blocks are described by `log`, is a well-formed version-2 file holding `es`
    under `levels` index levels, with root block at `root`. -/
structure WellFormedV2 (cd : Codec) (iv levels : Nat) (es : List Entry) (file : Bytes)
    (log : List Emitted) (root : Nat) : Prop where
  /-- blocks back to back from offset 0, then the trailer -/
  layout : file = log.flatMap (framed cd) ++ Meta.encode ⟨2, root, cd.id, es.length, levels⟩
  /-- the trailer, byte for byte (22 bytes) -/
  trailer : Meta.encode ⟨2, root, cd.id, es.length, levels⟩
      = le64 root ++ [UInt8.ofNat cd.id] ++ le64 es.length ++ [UInt8.ofNat levels] ++ le32 0x6723D4C4
    ∧ (Meta.encode ⟨2, root, cd.id, es.length, levels⟩).length = 22
  /-- the recorded offsets are the prefix sums of the framed sizes -/
  offsets : ∀ l1 e l2, log = l1 ++ e :: l2 → e.offset = (l1.flatMap (framed cd)).length
  /-- the last block is the root; it is the only block of level `levels + 1` -/
  root_last : ∃ l0 e, log = l0 ++ [e] ∧ e.offset = root ∧ e.level = levels + 1 ∧
      ∀ e' ∈ l0, e'.level < levels + 1
  /-- every block is the `BW.finish` image of a block writer holding its items -/
  raw : ∀ e ∈ log, ∃ w, BW.Made iv w ∧ e.raw = w.finish ∧ e.items = w.items
  /-- the items of every block are strictly ascending -/
  strict : ∀ e ∈ log, StrictAsc e.items
  /-- the data blocks hold the entries, in order -/
  data : (log.filter (·.level = 0)).flatMap (·.items) = es
  /-- index blocks of level `ℓ` point to the consecutive blocks of level `ℓ - 1` -/
  index : ∀ ℓ, 1 ≤ ℓ → ℓ ≤ levels + 1 →
      (log.filter (·.level = ℓ)).flatMap (·.items)
        = (log.filter (·.level = ℓ - 1)).map (fun c => (lastKey c.items, be64 c.offset))
  /-- every block can be read back at its recorded offset -/
  readable : ∀ e ∈ log, loadBlock cd file e.offset = Block.parse e.raw
  /-- the trailer parses -/
  parse : Meta.parse file = .ok ⟨2, root, cd.id, es.length, levels⟩
  /-- the index is a well-formed tree over the entries -/
  tree : FileOK (storeOf log) root levels es

theorem C09_conforms {cd : Codec} {cfg : WCfg} {es : List Entry} (H : WriterHyps cd cfg es)
    {file : Bytes} {log : List Emitted} (hrun : W.run cd cfg es = .ok (file, log))
    (hfile : file.length < 2 ^ 64) (hcount : es.length < 2 ^ 64) (hid : cd.id ≤ 5) :
    ∃ root, WellFormedV2 cd cfg.interval cfg.levels es file log root := by
  obtain ⟨idx, out, root, hf, hF, hFF⟩ := W.run_out H hrun
  have hol : out.length ≤ file.length := by rw [hf]; simp
  have hfr : (fun e => W.blockBytes cd e.raw) = framed cd := rfl
  have hparse : Meta.parse file = .ok ⟨2, root, cd.id, es.length, cfg.levels⟩ := by
    rw [hf]
    apply WT.meta_parse_encode_v2 _ _ rfl _ hid hcount H.levels
    have := hF.root
    simp only at this ⊢
    omega
  refine ⟨root, ?_, ⟨?_, WT.meta_encode_v2_length _ rfl⟩, ?_, hFF.root_last, hF.logok, ?_, hFF.data,
    hFF.links, ?_, hparse, H.asc, ?_, ?_⟩
  · rw [hf]; congr 1; exact hF.lay.out_eq
  · simp [Meta.encode, Meta.magicV2]
  · have := hF.lay.prefix_sum
    rw [hfr] at this; exact this
  · intro e he
    obtain ⟨w, rw', -, hi⟩ := hF.logok e he
    exact hi ▸ rw'.strictAsc
  · rw [hf] at hfile ⊢
    exact hF.lay.loadBlock H.lawful _ hfile
  · rcases hF.tree with h | h
    · exact Or.inl h
    · exact Or.inr ⟨lvlOf log, h⟩
  · intro off es' hs
    obtain ⟨e, he, rfl, rfl⟩ := storeOf_some hs
    obtain ⟨w, rw', -, hi⟩ := hF.logok e he
    refine ⟨hi ▸ rw'.strictAsc, ?_⟩
    have := hF.lay.offset_lt e he
    simp only at this
    omega

/-- The independent specification decoder (`SpecDecode.entries`: trailer parse, then `levels + 1`
    descents with `loadBlock` and a plain `Block.entryAt` walk) returns the inserted entries on
    the writer's output.  `BlocksDecode log` — the parsed bytes of every emitted block walk back
    to its items — is the T-block fact, taken here as a hypothesis; `Grenad.Props.C09Decoder`
    discharges it (blocks shorter than `2^32` bytes, `interval ≥ 1`). -/
theorem C09_spec_decoder {cd : Codec} {cfg : WCfg} {es : List Entry} (H : WriterHyps cd cfg es)
    {file : Bytes} {log : List Emitted} (hrun : W.run cd cfg es = .ok (file, log))
    (hfile : file.length < 2 ^ 64) (hcount : es.length < 2 ^ 64) (hid : cd.id ≤ 5)
    (hblocks : BlocksDecode log) :
    SpecDecode.entries cd file = some es :=
  SpecDecode.entries_run H hrun hfile hcount hid hblocks

/-! ### A concrete instance: `minBlock = 32`, two index levels, 14 entries -/

def cfgX : WCfg := { blockSize := 0, minBlock := 32, interval := 2, levels := 2 }
def kvX (i : Nat) : Entry := ([UInt8.ofNat (i / 256), UInt8.ofNat (i % 256)], [UInt8.ofNat i, 7])
def esX : List Entry := (List.range 14).map kvX

theorem hypsX : WriterHyps Codec.none cfgX esX where
  levels := by decide
  lawful := fun _ => rfl
  asc := by unfold StrictAsc; decide
  lens := by decide

/-- Shape of the result: `(file length, [(offset, level, #items)])`. -/
def shape (r : Except Trap (Bytes × List Emitted)) : Option (Nat × List (Nat × Nat × Nat)) :=
  match r with
  | .ok (f, log) => some (f.length, log.map (fun e => (e.offset, e.level, e.items.length)))
  | .error _ => none

set_option maxRecDepth 100000 in
/-- Five data blocks, two level-1 blocks cut during insertion and one at the end, then the
    level-2 block and the root. -/
example : shape (W.run Codec.none cfgX esX)
    = some (454, [(0, 0, 3), (46, 0, 3), (92, 1, 2), (136, 0, 3), (182, 0, 3), (228, 1, 2),
                  (272, 0, 2), (304, 1, 1), (336, 2, 3), (400, 3, 1)]) := by
  decide

/-- Edge cases: the empty file is a single empty root block (whatever the number of levels),
    and with `levels = 0` the root points directly to the data blocks. -/
example : shape (W.run Codec.none { blockSize := 0, minBlock := 32, interval := 2, levels := 3 } [])
    = some (42, [(0, 4, 0)]) := by decide

set_option maxRecDepth 100000 in
example : shape (W.run Codec.none { blockSize := 0, minBlock := 32, interval := 2, levels := 0 } esX)
    = some (334, [(0, 0, 3), (46, 0, 3), (92, 0, 3), (138, 0, 3), (184, 0, 2), (216, 1, 5)]) := by
  decide

/-- The hypotheses of `C09_conforms` (and of `T_writer_tree`, `T_writer_bytes`) are satisfiable. -/
example : ∃ file log root, W.run Codec.none cfgX esX = .ok (file, log) ∧
    WellFormedV2 Codec.none cfgX.interval cfgX.levels esX file log root := by
  obtain ⟨file, log, hrun⟩ := T_writer_ok hypsX
  have hlen : file.length < 2 ^ 64 := by
    have h : (shape (W.run Codec.none cfgX esX)).map (·.1) = some 454 := by
      set_option maxRecDepth 100000 in decide
    rw [hrun] at h
    simp only [shape, Option.map_some, Option.some.injEq] at h
    omega
  obtain ⟨root, h⟩ := C09_conforms hypsX hrun hlen (by decide) (by decide)
  exact ⟨file, log, root, hrun, h⟩

set_option maxRecDepth 100000 in
/-- The decoder on the concrete file, by evaluation. -/
example : (match W.run Codec.none cfgX esX with
    | .ok (file, _) => SpecDecode.entries Codec.none file
    | .error _ => none) = some esX := by
  decide

end Grenad.Props.C09

section Audit
open Grenad Grenad.Props.C09
#print axioms T_writer_ok
#print axioms T_writer_tree
#print axioms T_writer_bytes
#print axioms C09_conforms
#print axioms C09_spec_decoder
end Audit

namespace Grenad.Props.C09

/-- Translator tie: trailer magic, record size and codec ids in /repo's current sources. -/
theorem C09_constants_from_source :
    Grenad.Generated.magicV2 = 0x6723D4C4 ∧ Grenad.Generated.magicV2 = Grenad.Meta.magicV2 ∧
    Grenad.Generated.metadataV2Size + 4 = 22 ∧
    [Grenad.Generated.codecNone, Grenad.Generated.codecSnappyPre05, Grenad.Generated.codecZlib,
     Grenad.Generated.codecLz4, Grenad.Generated.codecZstd, Grenad.Generated.codecSnappy] = [0, 1, 2, 3, 4, 5] := by decide

end Grenad.Props.C09
