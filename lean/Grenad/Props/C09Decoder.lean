/-
  C09, specification decoder without the per-block hypothesis: T-block (`parse_built`,
  `BlockOf.entryAt_lt/_end`) supplies it for blocks shorter than `2^32` bytes.
-/
import Grenad.Props.C09
import Grenad.Proofs.WriterTreeDecodeTB

namespace Grenad.Props.C09

open Grenad

/-- On every file produced by the writer from sorted input, the independent decoder returns the
    inserted entries — provided every emitted block is shorter than `2^32` bytes (T-block's
    footer assumption) and `index_key_interval ≥ 1`. -/
theorem C09_spec_decoder_small {cd : Codec} {cfg : WCfg} {es : List Entry}
    (H : WriterHyps cd cfg es) (hiv : 1 ≤ cfg.interval) {file : Bytes} {log : List Emitted}
    (hrun : W.run cd cfg es = .ok (file, log))
    (hfile : file.length < 2 ^ 64) (hcount : es.length < 2 ^ 64) (hid : cd.id ≤ 5)
    (hsmall : ∀ e ∈ log, e.raw.length < 2 ^ 32) :
    SpecDecode.entries cd file = some es :=
  SpecDecode.entries_run_small H hiv hrun hfile hcount hid hsmall

/-- Size checks on a run result, as a Boolean. -/
def sizesOK (r : Except Trap (Bytes × List Emitted)) : Bool :=
  match r with
  | .ok (f, log) => decide (f.length < 2 ^ 64) && log.all (fun e => decide (e.raw.length < 2 ^ 32))
  | .error _ => false

/-- The hypotheses are satisfiable (instance of `Props/C09.lean`). -/
example : ∃ file log, W.run Codec.none cfgX esX = .ok (file, log) ∧
    SpecDecode.entries Codec.none file = some esX := by
  obtain ⟨file, log, hrun⟩ := T_writer_ok hypsX
  have h : sizesOK (W.run Codec.none cfgX esX) = true := by
    set_option maxRecDepth 100000 in decide
  rw [hrun] at h
  simp only [sizesOK, Bool.and_eq_true, decide_eq_true_eq, List.all_eq_true] at h
  exact ⟨file, log, hrun,
    C09_spec_decoder_small hypsX (by decide) hrun h.1 (by decide) (by decide) h.2⟩

end Grenad.Props.C09

section Audit
open Grenad.Props.C09
#print axioms C09_spec_decoder_small
end Audit
