/-
  C01 — Write/read round trip is exact, ordered, complete for every configuration;
  and the byte-level versions of C02–C05 on files produced by the writer.

  Everything below is about the *executable* reader, `RC.step byteOps (loadCursor cd file) true`
  started from `RC.new m` with `m` the parsed trailer, over the bytes `file` returned by
  `W.run cd cfg es`.  The statements are obtained by composing
    T-writer  (`T_writer_ok`, `T_writer_tree`, `T_writer_bytes`: the file is a well-formed tree
               over `es`, every emitted block can be loaded back at its offset),
    T-block   (`parse_built`, `byteOps_sim`: the byte-level in-block cursor is the list cursor),
    T-cursor  (`TCursor.step_inv`: the reader over the abstract store is the specification cursor),
    the simulation lifting (`RC_step_sim`), the no-error invariant (`Assembly.NE_step`) and
    loader monotonicity (`step_load_mono`) — see Grenad/Proofs/Assembly.lean.

  Hypotheses (`Assembly.Setting cd cfg es file log`):
    `WriterHyps cd cfg es` (codec lawful, `index_levels ≤ 255`, `es` strictly ascending, key and
    value lengths `< 2^32`), `1 ≤ cfg.interval`, `W.run cd cfg es = .ok (file, log)`,
    `file.length < 2^64`, `es.length < 2^64`, `cd.id ≤ 5`, and every emitted block shorter than
    `2^32` bytes (T-block's footer assumption).
-/
import Grenad.Proofs.Assembly

namespace Grenad.Props.C01

open Grenad Grenad.Assembly

/-- Finding F2, as a theorem about the mirror of the *pinned* code (`len() as u8 - 1`):
    with `index_levels = 255` finishing traps, even for the empty file. -/
def finishPinned (idxLen : Nat) : Except Trap Nat :=
  let lenU8 := idxLen % 256
  if lenU8 = 0 then .error .u8Overflow else .ok (lenU8 - 1)

theorem C01_levels255_trapped_when_pinned : finishPinned (255 + 1) = .error .u8Overflow := by rfl

/-! ### The executable reader -/

/-- One public cursor call of the byte-level reader over `file` (repaired code, `fixF1 = true`). -/
abbrev reader (cd : Codec) (file : Bytes) : RC BlockCursor → Op → RC BlockCursor × Res :=
  RC.step byteOps (loadCursor cd file) true

/-- `next()` × `n` from `c`: the results in order. -/
abbrev scanForward (cd : Codec) (file : Bytes) (n : Nat) (c : RC BlockCursor) : List Res :=
  scan (reader cd file) .next n c

/-- `prev()` × `n` from `c`: the results in order. -/
abbrev scanBackward (cd : Codec) (file : Bytes) (n : Nat) (c : RC BlockCursor) : List Res :=
  scan (reader cd file) .prev n c

section
variable {cd : Codec} {cfg : WCfg} {es : List Entry} {file : Bytes} {log : List Emitted}
  {m : Meta.Meta}

/-! ### C01 -/

/-- The written file opens (the trailer parses). -/
theorem C01_opens (S : Setting cd cfg es file log) : ∃ m, Meta.parse file = .ok m := by
  obtain ⟨root, -, h⟩ := S.fileOK
  exact ⟨_, h⟩

/-- **C01, on the output of a run.**  The parsed trailer reports version 2, the codec, the number
    of inserted pairs and the configured number of index levels; `next()` × `(n+1)` from the
    freshly opened cursor returns exactly the inserted pairs in insertion order and then `None`
    (nothing lost, duplicated, reordered, truncated or altered); `prev()` × `(n+1)` returns them
    in reverse order and then `None`. -/
theorem C01_roundtrip_of_run (S : Setting cd cfg es file log) (hm : Meta.parse file = .ok m) :
    m.count = es.length ∧ m.codec = cd.id ∧ m.version = 2 ∧ m.levels = cfg.levels ∧
    scanForward cd file (es.length + 1) (RC.new m) =
      es.map (fun e => Res.ok (some e)) ++ [Res.ok none] ∧
    scanBackward cd file (es.length + 1) (RC.new m) =
      es.reverse.map (fun e => Res.ok (some e)) ++ [Res.ok none] := by
  obtain ⟨⟨h1, h2, h3, h4⟩, R, hsim, hR, -⟩ := S.main hm
  exact ⟨h3, h2, h1, h4, scan_next hsim hR, scan_prev hsim hR⟩

/-- The empty file scans as empty, in both directions. -/
theorem C01_empty (S : Setting cd cfg [] file log) (hm : Meta.parse file = .ok m) :
    m.count = 0 ∧ scanForward cd file 1 (RC.new m) = [Res.ok none] ∧
      scanBackward cd file 1 (RC.new m) = [Res.ok none] := by
  obtain ⟨h1, -, -, -, h5, h6⟩ := C01_roundtrip_of_run S hm
  exact ⟨h1, h5, h6⟩

/-- **C01.**  For every codec (lawful, id ≤ 5), every configuration (any block size, any
    `index_levels ≤ 255`, any `index_key_interval ≥ 1`) and every strictly ascending input (key and
    value lengths `< 2^32`, fewer than `2^64` pairs): inserting everything and finishing succeeds,
    and — provided the output is smaller than `2^64` bytes and every block smaller than `2^32`
    bytes — the file opens, reports count and codec, and scans back exactly, forwards and
    backwards. -/
theorem C01_roundtrip (cd : Codec) (cfg : WCfg) (es : List Entry)
    (hlaw : cd.Lawful) (hid : cd.id ≤ 5) (hlv : cfg.levels ≤ 255) (hiv : 1 ≤ cfg.interval)
    (hasc : StrictAsc es) (hlens : ∀ e ∈ es, e.1.length < 2 ^ 32 ∧ e.2.length < 2 ^ 32)
    (hcount : es.length < 2 ^ 64) :
    ∃ file log, W.run cd cfg es = .ok (file, log) ∧
      (file.length < 2 ^ 64 → (∀ e ∈ log, e.raw.length < 2 ^ 32) →
        ∃ m, Meta.parse file = .ok m ∧
          m.count = es.length ∧ m.codec = cd.id ∧ m.version = 2 ∧ m.levels = cfg.levels ∧
          scanForward cd file (es.length + 1) (RC.new m) =
            es.map (fun e => Res.ok (some e)) ++ [Res.ok none] ∧
          scanBackward cd file (es.length + 1) (RC.new m) =
            es.reverse.map (fun e => Res.ok (some e)) ++ [Res.ok none]) := by
  have H : WriterHyps cd cfg es := ⟨hlv, hlaw, hasc, hlens⟩
  obtain ⟨file, log, hrun⟩ := T_writer_ok H
  refine ⟨file, log, hrun, fun hfile hsmall => ?_⟩
  have S : Setting cd cfg es file log := ⟨H, hiv, hrun, hfile, hcount, hid, hsmall⟩
  obtain ⟨m, hm⟩ := C01_opens S
  exact ⟨m, hm, C01_roundtrip_of_run S hm⟩

/-- **C01/C03, byte level, every history.**  For every finite list of cursor operations, the
    results of the byte-level reader over the written file agree with the specification cursor
    over the inserted entries wherever the latter determines the result.
    No restriction on the history: the reader never fails, even from position `lost`. -/
theorem C01_bytes_history (S : Setting cd cfg es file log) (hm : Meta.parse file = .ok m)
    (ops : List Op) :
    ∀ x ∈ runBothG (reader cd file) es (RC.new m) .fresh ops, Spec.Agree x.1 x.2 := by
  obtain ⟨-, R, hsim, hR, -⟩ := S.main hm
  exact runBothG_agree hsim hR ops

/-- The byte-level reader never reports an error on a written file, whatever the history. -/
theorem C01_bytes_never_err (S : Setting cd cfg es file log) (hm : Meta.parse file = .ok m)
    (ops : List Op) (op : Op) :
    (reader cd file (stateAfter (reader cd file) (RC.new m) ops) op).2 ≠ .err := by
  obtain ⟨root, hok, hparse⟩ := S.fileOK
  rw [hm] at hparse
  cases hparse
  have hsim := RS_sim hok S.byteSim
  obtain ⟨a, hrel, hinv, hne⟩ :=
    stateAfter_R hsim
      (RS_new hok (Rb cfg.interval log) ⟨2, root, cd.id, es.length, cfg.levels⟩ rfl rfl) ops
  rw [(S.byteSim.step hrel op (NE_step hok hne op).1).2]
  exact (NE_step hok hne op).1

/-! ### C02, byte level -/

/-- `ge q` from the freshly opened cursor returns the ceiling of `q`. -/
theorem C02_bytes_ge (S : Setting cd cfg es file log) (hm : Meta.parse file = .ok m) (q : Bytes) :
    (reader cd file (RC.new m) (.ge q)).2 = .ok (Spec.ceiling es q) := by
  obtain ⟨-, R, hsim, hR, -⟩ := S.main hm
  exact sim_ge hsim hR q

/-- `le q` from the freshly opened cursor returns the floor of `q`. -/
theorem C02_bytes_le (S : Setting cd cfg es file log) (hm : Meta.parse file = .ok m) (q : Bytes) :
    (reader cd file (RC.new m) (.le q)).2 = .ok (Spec.floor es q) := by
  obtain ⟨-, R, hsim, hR, -⟩ := S.main hm
  exact sim_le hsim S.H.asc hR q

/-- `eq q` from the freshly opened cursor returns the entry with key `q`, if any. -/
theorem C02_bytes_eq (S : Setting cd cfg es file log) (hm : Meta.parse file = .ok m) (q : Bytes) :
    (reader cd file (RC.new m) (.eq q)).2 = .ok (Spec.lookup es q) := by
  obtain ⟨-, R, hsim, hR, -⟩ := S.main hm
  exact sim_eq hsim S.H.asc hR q

/-- After any history (resets, failed searches, runs off either end included). -/
theorem C02_bytes_ge_after (S : Setting cd cfg es file log) (hm : Meta.parse file = .ok m)
    (ops : List Op) (q : Bytes) :
    (reader cd file (stateAfter (reader cd file) (RC.new m) ops) (.ge q)).2
      = .ok (Spec.ceiling es q) := by
  obtain ⟨-, R, hsim, hR, -⟩ := S.main hm
  exact sim_ge hsim (stateAfter_R hsim hR ops) q

theorem C02_bytes_le_after (S : Setting cd cfg es file log) (hm : Meta.parse file = .ok m)
    (ops : List Op) (q : Bytes) :
    (reader cd file (stateAfter (reader cd file) (RC.new m) ops) (.le q)).2
      = .ok (Spec.floor es q) := by
  obtain ⟨-, R, hsim, hR, -⟩ := S.main hm
  exact sim_le hsim S.H.asc (stateAfter_R hsim hR ops) q

theorem C02_bytes_eq_after (S : Setting cd cfg es file log) (hm : Meta.parse file = .ok m)
    (ops : List Op) (q : Bytes) :
    (reader cd file (stateAfter (reader cd file) (RC.new m) ops) (.eq q)).2
      = .ok (Spec.lookup es q) := by
  obtain ⟨-, R, hsim, hR, -⟩ := S.main hm
  exact sim_eq hsim S.H.asc (stateAfter_R hsim hR ops) q

/-- After `reset`, from any reachable state. -/
theorem C02_bytes_ge_reset (S : Setting cd cfg es file log) (hm : Meta.parse file = .ok m)
    (ops : List Op) (q : Bytes) :
    (reader cd file (reader cd file (stateAfter (reader cd file) (RC.new m) ops) .reset).1 (.ge q)).2
      = .ok (Spec.ceiling es q) := by
  obtain ⟨-, R, hsim, hR, -⟩ := S.main hm
  exact sim_ge hsim (hsim _ _ .reset (stateAfter_R hsim hR ops)).1 q

theorem C02_bytes_le_reset (S : Setting cd cfg es file log) (hm : Meta.parse file = .ok m)
    (ops : List Op) (q : Bytes) :
    (reader cd file (reader cd file (stateAfter (reader cd file) (RC.new m) ops) .reset).1 (.le q)).2
      = .ok (Spec.floor es q) := by
  obtain ⟨-, R, hsim, hR, -⟩ := S.main hm
  exact sim_le hsim S.H.asc (hsim _ _ .reset (stateAfter_R hsim hR ops)).1 q

theorem C02_bytes_eq_reset (S : Setting cd cfg es file log) (hm : Meta.parse file = .ok m)
    (ops : List Op) (q : Bytes) :
    (reader cd file (reader cd file (stateAfter (reader cd file) (RC.new m) ops) .reset).1 (.eq q)).2
      = .ok (Spec.lookup es q) := by
  obtain ⟨-, R, hsim, hR, -⟩ := S.main hm
  exact sim_eq hsim S.H.asc (hsim _ _ .reset (stateAfter_R hsim hR ops)).1 q

/-! ### C04, byte level -/

/-- The forward range iterator over the byte-level reader yields exactly the entries in range,
    ascending. -/
theorem C04_bytes_range (S : Setting cd cfg es file log) (hm : Meta.parse file = .ok m)
    (lo hi : Bound) (fuel : Nat) (hfuel : fuel > es.length) :
    collect (RangeIter.next (reader cd file)) fuel { cursor := RC.new m, lo := lo, hi := hi } [] =
      some (Spec.range es lo hi) := by
  obtain ⟨-, R, hsim, hR, -⟩ := S.main hm
  exact IterP.range_collect hsim S.H.asc _ _ hR lo hi fuel hfuel

/-- The backward range iterator yields them descending. -/
theorem C04_bytes_range_rev (S : Setting cd cfg es file log) (hm : Meta.parse file = .ok m)
    (lo hi : Bound) (fuel : Nat) (hfuel : fuel > es.length) :
    collect (RangeIter.nextRev (reader cd file)) fuel
        { cursor := RC.new m, lo := lo, hi := hi } [] =
      some (Spec.range es lo hi).reverse := by
  obtain ⟨-, R, hsim, hR, -⟩ := S.main hm
  exact IterP.range_collect_rev hsim S.H.asc _ _ hR lo hi fuel hfuel

/-- The same from the cursor state reached after any history (a range iterator re-seeks). -/
theorem C04_bytes_range_after (S : Setting cd cfg es file log) (hm : Meta.parse file = .ok m)
    (ops : List Op) (lo hi : Bound) (fuel : Nat) (hfuel : fuel > es.length) :
    collect (RangeIter.next (reader cd file)) fuel
        { cursor := stateAfter (reader cd file) (RC.new m) ops, lo := lo, hi := hi } [] =
      some (Spec.range es lo hi) := by
  obtain ⟨-, R, hsim, hR, -⟩ := S.main hm
  exact IterP.range_collect hsim S.H.asc _ _ (stateAfter_R hsim hR ops) lo hi fuel hfuel

/-! ### C05, byte level -/

/-- The forward prefix iterator over the byte-level reader yields exactly the entries whose key
    starts with the prefix, ascending. -/
theorem C05_bytes_prefix (S : Setting cd cfg es file log) (hm : Meta.parse file = .ok m)
    (p : Bytes) (fuel : Nat) (hfuel : fuel > es.length) :
    collect (PrefixIter.next (reader cd file)) fuel { cursor := RC.new m, pre := p } [] =
      some (Spec.withPrefix es p) := by
  obtain ⟨-, R, hsim, hR, -⟩ := S.main hm
  exact IterP.prefix_collect hsim S.H.asc _ _ hR p fuel hfuel

/-- The side condition of the backward prefix iterator holds for the byte-level reader: after a
    failed floor seek, `current()` does not fail and returns nothing or an entry of the file. -/
theorem C05_bytes_side_condition (S : Setting cd cfg es file log) (hm : Meta.parse file = .ok m)
    (p : Bytes) : IterP.LostCurrentOK (reader cd file) (RC.new m) p := by
  obtain ⟨-, R, hsim, hR, hside⟩ := S.main hm
  exact IterP.lostCurrentOK_of_mem hsim S.H.asc _ _ hR p (hside _ _ hR)

/-- The backward prefix iterator yields them descending. -/
theorem C05_bytes_prefix_rev (S : Setting cd cfg es file log) (hm : Meta.parse file = .ok m)
    (p : Bytes) (fuel : Nat) (hfuel : fuel > es.length) :
    collect (PrefixIter.nextRev (reader cd file)) fuel { cursor := RC.new m, pre := p } [] =
      some (Spec.withPrefix es p).reverse := by
  obtain ⟨-, R, hsim, hR, hside⟩ := S.main hm
  exact IterP.prefix_collect_rev hsim S.H.asc _ _ hR p
    (IterP.lostCurrentOK_of_mem hsim S.H.asc _ _ hR p (hside _ _ hR)) fuel hfuel

end

/-! ### A concrete instance, end to end

`Codec.none`, `MIN_BLOCK_SIZE` lowered to 28 (so that twelve small entries already span four data
blocks, two bottom-level index blocks, one middle index block and the root), two index levels
below the root, interval 2.  The writer is run, the trailer parsed and the file scanned, all by
kernel evaluation (`decide`). -/

def exCfg : WCfg := { blockSize := 0, minBlock := 28, interval := 2, levels := 2 }

def exEs : List Entry :=
  [([1], [10]), ([2], [20, 21]), ([3, 0], []), ([3, 1], [30, 31, 32]), ([4], [40]),
   ([5, 5, 5], [50]), ([6], [60]), ([7], [70, 71]), ([7, 0], []), ([8, 1], [80, 81, 82]),
   ([9], [90]), ([9, 5, 5], [95])]

theorem exHyps : WriterHyps Codec.none exCfg exEs :=
  ⟨by decide, fun _ => rfl, by unfold StrictAsc exEs; decide, by simp [exEs]⟩

/-- The bytes written for `exEs`. -/
def exFile : Bytes :=
  match W.run Codec.none exCfg exEs with
  | .ok (f, _) => f
  | .error _ => []

/-- The blocks emitted for `exEs`. -/
def exLog : List Emitted :=
  match W.run Codec.none exCfg exEs with
  | .ok (_, l) => l
  | .error _ => []

theorem exRun : W.run Codec.none exCfg exEs = .ok (exFile, exLog) := by
  obtain ⟨file, log, h⟩ := T_writer_ok exHyps
  simp only [exFile, exLog, h]

/-- Size side conditions, and the shape of the log (levels of the emitted blocks, in emission
    order), as a Boolean. -/
def exSizesOK : Bool :=
  decide (exFile.length < 2 ^ 64) && exLog.all (fun e => decide (e.raw.length < 2 ^ 32)) &&
    decide (exLog.map (·.level) = [0, 0, 1, 0, 0, 1, 2, 3])

theorem exSizes : exSizesOK = true := by
  set_option maxRecDepth 100000 in decide

/-- The hypotheses of every theorem of this file are satisfiable: a non-trivial instance. -/
theorem exSetting : Setting Codec.none exCfg exEs exFile exLog := by
  have h := exSizes
  simp only [exSizesOK, Bool.and_eq_true, decide_eq_true_eq, List.all_eq_true] at h
  exact ⟨exHyps, by decide, exRun, h.1.1, by decide, by decide, h.1.2⟩

/-- End-to-end evaluation: the file opens with count 12 / codec 0 / two levels, `next()` × 13
    returns the twelve pairs in order then `None`, and `prev()` × 13 the reverse. -/
def exCheck : Bool :=
  match Meta.parse exFile with
  | .ok m =>
    decide (m.count = 12 ∧ m.codec = 0 ∧ m.version = 2 ∧ m.levels = 2 ∧
      scanForward Codec.none exFile 13 (RC.new m) =
        exEs.map (fun e => Res.ok (some e)) ++ [Res.ok none] ∧
      scanBackward Codec.none exFile 13 (RC.new m) =
        exEs.reverse.map (fun e => Res.ok (some e)) ++ [Res.ok none])
  | .error _ => false

/-- By evaluation in the kernel (no theorem of this development is used). -/
theorem exCheck_true : exCheck = true := by
  set_option maxRecDepth 100000 in decide

/-- Key searches, a range and a prefix on the same file, by evaluation. -/
def exCheck2 : Bool :=
  match Meta.parse exFile with
  | .ok m =>
    decide (
      (reader Codec.none exFile (RC.new m) (.ge [3])).2 = .ok (some ([3, 0], [])) ∧
      (reader Codec.none exFile (RC.new m) (.le [8])).2 = .ok (some ([7, 0], [])) ∧
      (reader Codec.none exFile (RC.new m) (.eq [5, 5])).2 = .ok none ∧
      collect (RangeIter.next (reader Codec.none exFile)) 13
          { cursor := RC.new m, lo := .excluded [3, 0], hi := .included [7] } [] =
        some [([3, 1], [30, 31, 32]), ([4], [40]), ([5, 5, 5], [50]), ([6], [60]), ([7], [70, 71])] ∧
      collect (PrefixIter.nextRev (reader Codec.none exFile)) 13
          { cursor := RC.new m, pre := [9] } [] = some [([9, 5, 5], [95]), ([9], [90])] ∧
      collect (PrefixIter.nextRev (reader Codec.none exFile)) 13
          { cursor := RC.new m, pre := [0] } [] = some [])
  | .error _ => false

theorem exCheck2_true : exCheck2 = true := by
  set_option maxRecDepth 100000 in decide

/-! ### The theorems applied to the instance -/

example : ∃ m, Meta.parse exFile = .ok m ∧ m.count = 12 ∧
    scanForward Codec.none exFile 13 (RC.new m) =
      exEs.map (fun e => Res.ok (some e)) ++ [Res.ok none] := by
  obtain ⟨m, hm⟩ := C01_opens exSetting
  obtain ⟨h1, -, -, -, h5, -⟩ := C01_roundtrip_of_run exSetting hm
  exact ⟨m, hm, h1, h5⟩

example : ∃ file log, W.run Codec.none exCfg exEs = .ok (file, log) :=
  (C01_roundtrip Codec.none exCfg exEs (fun _ => rfl) (by decide) (by decide) (by decide)
    exHyps.asc exHyps.lens (by decide)).imp fun _ h => h.imp fun _ h => h.1

/-- The empty input: a file that scans as empty. -/
example : ∃ file log, W.run Codec.none exCfg [] = .ok (file, log) ∧
    (file.length < 2 ^ 64 → (∀ e ∈ log, e.raw.length < 2 ^ 32) →
      ∃ m, Meta.parse file = .ok m ∧ m.count = 0 ∧
        scanForward Codec.none file 1 (RC.new m) = [Res.ok none] ∧
        scanBackward Codec.none file 1 (RC.new m) = [Res.ok none]) := by
  obtain ⟨file, log, hrun, h⟩ := C01_roundtrip Codec.none exCfg [] (fun _ => rfl) (by decide)
    (by decide) (by decide) List.Pairwise.nil (by simp) (by decide)
  refine ⟨file, log, hrun, fun h1 h2 => ?_⟩
  obtain ⟨m, hm, g1, -, -, -, g5, g6⟩ := h h1 h2
  exact ⟨m, hm, g1, g5, g6⟩

example (m : Meta.Meta) (hm : Meta.parse exFile = .ok m) (ops : List Op) :
    ∀ x ∈ runBothG (reader Codec.none exFile) exEs (RC.new m) .fresh ops, Spec.Agree x.1 x.2 :=
  C01_bytes_history exSetting hm ops

example (m : Meta.Meta) (hm : Meta.parse exFile = .ok m) (ops : List Op) (q : Bytes) :
    (reader Codec.none exFile (stateAfter (reader Codec.none exFile) (RC.new m) ops) (.le q)).2
      = .ok (Spec.floor exEs q) :=
  C02_bytes_le_after exSetting hm ops q

example (m : Meta.Meta) (hm : Meta.parse exFile = .ok m) (lo hi : Bound) :
    collect (RangeIter.nextRev (reader Codec.none exFile)) 13
        { cursor := RC.new m, lo := lo, hi := hi } [] = some (Spec.range exEs lo hi).reverse :=
  C04_bytes_range_rev exSetting hm lo hi 13 (by decide)

example (m : Meta.Meta) (hm : Meta.parse exFile = .ok m) (p : Bytes) :
    collect (PrefixIter.nextRev (reader Codec.none exFile)) 13 { cursor := RC.new m, pre := p } [] =
      some (Spec.withPrefix exEs p).reverse :=
  C05_bytes_prefix_rev exSetting hm p 13 (by decide)

end Grenad.Props.C01

section Audit
open Grenad.Props.C01
#print axioms C01_roundtrip
#print axioms C01_roundtrip_of_run
#print axioms C01_empty
#print axioms C01_bytes_history
#print axioms C01_bytes_never_err
#print axioms C02_bytes_ge
#print axioms C02_bytes_le
#print axioms C02_bytes_eq
#print axioms C02_bytes_ge_after
#print axioms C02_bytes_le_reset
#print axioms C04_bytes_range
#print axioms C04_bytes_range_rev
#print axioms C04_bytes_range_after
#print axioms C05_bytes_prefix
#print axioms C05_bytes_side_condition
#print axioms C05_bytes_prefix_rev
#print axioms exSetting
#print axioms exCheck_true
#print axioms exCheck2_true
end Audit
