/-
  C01 — Write/read round trip is exact, ordered, complete for every configuration.
-/
import Grenad.Model.Abstract

namespace Grenad.Props.C01

open Grenad

/-- Finding F2, as a theorem about the mirror of the *pinned* code (`len() as u8 - 1`):
    with `index_levels = 255` finishing traps, even for the empty file. -/
def finishPinned (idxLen : Nat) : Except Trap Nat :=
  let lenU8 := idxLen % 256
  if lenU8 = 0 then .error .u8Overflow else .ok (lenU8 - 1)

theorem C01_levels255_trapped_when_pinned : finishPinned (255 + 1) = .error .u8Overflow := by rfl

end Grenad.Props.C01
