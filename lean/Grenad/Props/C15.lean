/-
  C15 — Blocks are cut at the configured size.

  `B := cfg.clamped = max cfg.minBlock cfg.blockSize`.  The size estimate of a block writer holding
  `items` with an offset table of `n` slots is `est items n` (= `BW.sizeEstimate`, and also the
  length of the bytes `BW.finish` writes).  For every successful run, every data block and every
  index block more than one level below the root
    * was below `B` (or empty) before its final entry was inserted, and
    * if it was emitted during an `insert` (a cut, not `finish`), is at least `B` with it.
  Index list positions 0 (root) and 1 are never cut by `Writer::insert` (in the Rust code the loop
  runs over `index_block_writers[1..]` and looks the parent up *inside that slice*), so the index
  block directly below the root grows without bound and the root always holds a single entry;
  see the level-3 block in the `example` below.
-/
import Grenad.Proofs.WriterInv
import Grenad.Generated.Constants

namespace Grenad.Props.C15

open Grenad

/-- The size estimate (`current_size_estimate`) of a block writer holding `items` with an offset
    table of `offsetsLen` slots. -/
def est (items : List Entry) (offsetsLen : Nat) : Nat :=
  (items.map frameOf).flatten.length + offsetsLen * 8 + 4

theorem est_eq_sizeEstimate {iv : Nat} {w : BW} (h : BW.Reach iv w) :
    est w.items w.offsets.length = w.sizeEstimate := h.sizeEstimate_eq.symm

/-- Levels subject to cutting: data blocks, and index blocks more than one level below the root
    (the root has level `cfg.levels + 1`). -/
def Cuttable (cfg : WCfg) (e : Emitted) : Prop :=
  e.level = 0 ∨ (1 ≤ e.level ∧ e.level + 2 ≤ cfg.levels + 1)

/-- Block `e` is the `finish` of the block writer state `bw`, which was obtained from the state `p`
    (reachable from the empty writer by successful inserts) by inserting the final entry `(k, v)`. -/
structure LastInsert (cfg : WCfg) (e : Emitted) (p bw : BW) (k v : Bytes) : Prop where
  reach  : BW.Reach cfg.interval p
  ins    : p.insert k v = .ok bw
  items  : e.items = p.items ++ [(k, v)]
  raw    : e.raw = bw.finish
  rawLen : e.raw.length = est e.items bw.offsets.length
  grow   : est e.items bw.offsets.length ≤ est p.items p.offsets.length + (BW.frame k v).length + 8

theorem lastInsert_of_goodPred {cfg : WCfg} {e : Emitted} {bw : BW}
    (hit : e.items = bw.items) (hraw : e.raw = bw.finish)
    (hg : GoodPred cfg.interval cfg.clamped bw) :
    ∃ p k v, LastInsert cfg e p bw k v ∧ (p.items = [] ∨ est p.items p.offsets.length < cfg.clamped) := by
  obtain ⟨p, k, v, hp, hins, hpend⟩ := hg
  have hbw : BW.Reach cfg.interval bw := BW.Reach.step hp hins
  have hitems : e.items = p.items ++ [(k, v)] := by rw [hit, (BW.insert_ok hins).2.2.2.2.2.1]
  have hlen : e.raw.length = est e.items bw.offsets.length := by
    rw [hraw, BW.finish_length, hit, est_eq_sizeEstimate hbw]
  refine ⟨p, k, v, ⟨hp, hins, hitems, hraw, hlen, ?_⟩, ?_⟩
  · rw [hit, est_eq_sizeEstimate hbw, est_eq_sizeEstimate hp]
    exact (BW.sizeEstimate_insert hins).2
  · rcases hpend with h | h
    · exact .inl h
    · exact .inr (by rw [est_eq_sizeEstimate hp]; exact h)

/-- **C15 (cut rule).**  For a successful run, split the log into the blocks emitted while
    inserting (`w.log`, where `w` is the writer after the last insert) and those emitted by
    `finish` (`tl`).  Every block on a cuttable level has a last insert `p —(k,v)→ bw` whose
    predecessor state was empty or had a size estimate `< B`; every block emitted while inserting
    has a size estimate (= raw length) `≥ B`. -/
theorem C15_cut (cd : Codec) (cfg : WCfg) (kvs : List Entry) (file : Bytes) (log : List Emitted)
    (h : W.run cd cfg kvs = .ok (file, log)) :
    ∃ w tl, W.run.go cd (W.new cfg) kvs = .ok w ∧ W.finish cd w = .ok (file, log) ∧
      log = w.log ++ tl ∧
      (∀ e ∈ log, Cuttable cfg e → ∃ p bw k v, LastInsert cfg e p bw k v ∧
          (p.items = [] ∨ est p.items p.offsets.length < cfg.clamped)) ∧
      (∀ e ∈ w.log, cfg.clamped ≤ e.raw.length) := by
  obtain ⟨w, tl, hgo, hfin, _, _, hlog, hcut, hflush, _⟩ := (W.run_spec cd cfg kvs).1 file log h
  refine ⟨w, tl, hgo, hfin, hlog, ?_, fun e he => (hcut e he).2⟩
  intro e he hc
  have hem : EmOK cfg.interval cfg.clamped (cfg.levels + 1) e := by
    rw [hlog] at he
    rcases List.mem_append.mp he with he | he
    · exact (hcut e he).1
    · exact hflush e he
  obtain ⟨bw, _, hit, hraw, hg⟩ := hem
  have hc' : e.level = 0 ∨ e.level + 2 ≤ cfg.levels + 1 := by
    rcases hc with hc | hc
    · exact .inl hc
    · exact .inr hc.2
  obtain ⟨p, k, v, hli, hp⟩ := lastInsert_of_goodPred hit hraw (hg hc')
  exact ⟨p, bw, k, v, hli, hp⟩

/-- The empty block writer has size estimate 12 (one offset slot and the 4-byte count), so as soon
    as `B > 12` — always, with the default `MIN_BLOCK_SIZE = 1024` — the predecessor state is
    below `B` without exception. -/
theorem C15_cut_strict (cd : Codec) (cfg : WCfg) (kvs : List Entry) (file : Bytes) (log : List Emitted)
    (h : W.run cd cfg kvs = .ok (file, log)) (hB : 12 < cfg.clamped) :
    ∀ e ∈ log, Cuttable cfg e → ∃ p bw k v, LastInsert cfg e p bw k v ∧
      est p.items p.offsets.length < cfg.clamped := by
  obtain ⟨w, tl, _, _, _, hall, _⟩ := C15_cut cd cfg kvs file log h
  intro e he hc
  obtain ⟨p, bw, k, v, hli, hp⟩ := hall e he hc
  refine ⟨p, bw, k, v, hli, ?_⟩
  rcases hp with hp | hp
  · have : p = BW.new cfg.interval := hli.reach.eq_new_of_items_nil hp
    rw [this]
    exact hB
  · exact hp

/-- **C15 (size bound).**  On the cuttable levels a block exceeds the block size by at most its
    final entry's frame plus one offset slot.  (`max (B - 1) 12` is `B - 1` as soon as `B > 12`.) -/
theorem C15_bound (cd : Codec) (cfg : WCfg) (kvs : List Entry) (file : Bytes) (log : List Emitted)
    (h : W.run cd cfg kvs = .ok (file, log)) :
    ∀ e ∈ log, Cuttable cfg e → ∃ ini last, e.items = ini ++ [last] ∧
      e.raw.length ≤ max (cfg.clamped - 1) 12 + (frameOf last).length + 8 := by
  obtain ⟨w, tl, _, _, _, hall, _⟩ := C15_cut cd cfg kvs file log h
  intro e he hc
  obtain ⟨p, bw, k, v, hli, hp⟩ := hall e he hc
  refine ⟨p.items, (k, v), hli.items, ?_⟩
  have h1 := hli.rawLen
  have h2 := hli.grow
  have h3 : est p.items p.offsets.length ≤ max (cfg.clamped - 1) 12 := by
    rcases hp with hp | hp
    · have : p = BW.new cfg.interval := hli.reach.eq_new_of_items_nil hp
      rw [this]
      exact Nat.le_max_right _ _
    · have : est p.items p.offsets.length ≤ cfg.clamped - 1 := by omega
      exact Nat.le_trans this (Nat.le_max_left _ _)
  show e.raw.length ≤ max (cfg.clamped - 1) 12 + (BW.frame k v).length + 8
  omega

theorem C15_bound_strict (cd : Codec) (cfg : WCfg) (kvs : List Entry) (file : Bytes)
    (log : List Emitted) (h : W.run cd cfg kvs = .ok (file, log)) (hB : 12 < cfg.clamped) :
    ∀ e ∈ log, Cuttable cfg e → ∃ ini last, e.items = ini ++ [last] ∧
      e.raw.length ≤ (cfg.clamped - 1) + (frameOf last).length + 8 := by
  intro e he hc
  obtain ⟨ini, last, h1, h2⟩ := C15_bound cd cfg kvs file log h e he hc
  refine ⟨ini, last, h1, ?_⟩
  have : max (cfg.clamped - 1) 12 = cfg.clamped - 1 := Nat.max_eq_left (by omega)
  rw [this] at h2
  exact h2

/-- After any number of inserts no pending writer on a cuttable position is left at or above the
    block size: the data block and the index writers at list index `≥ 2` are empty or below `B`. -/
theorem C15_pending (cd : Codec) (cfg : WCfg) (kvs : List Entry) (w : W)
    (h : W.run.go cd (W.new cfg) kvs = .ok w) :
    (w.bw.items = [] ∨ w.bw.sizeEstimate < cfg.clamped) ∧
    ∀ j b, w.idx[j]? = some b → 2 ≤ j → (b.items = [] ∨ b.sizeEstimate < cfg.clamped) := by
  obtain ⟨hcfg, hI, _⟩ := (W.go_spec cd kvs (W.new cfg) (W.inv_new cfg)).1 w h
  have hcfg' : w.cfg = cfg := hcfg
  have h1 := hI.bwP
  have h2 := hI.idxP
  rw [hcfg'] at h1 h2
  exact ⟨h1, h2⟩

/-- **C15 (clamp).**  The effective block size is `max MIN_BLOCK_SIZE size`. -/
theorem C15_clamp (cfg : WCfg) : cfg.clamped = max cfg.minBlock cfg.blockSize := rfl

/-- With the default `MIN_BLOCK_SIZE = 1024`, requested sizes up to 1024 give 1024. -/
theorem C15_clamp_default (b iv lv : Nat) (hb : b ≤ 1024) :
    ({ blockSize := b, interval := iv, levels := lv } : WCfg).clamped = 1024 := by
  show max 1024 b = 1024
  omega

theorem C15_clamp_default_ge (b iv lv : Nat) (hb : 1024 ≤ b) :
    ({ blockSize := b, interval := iv, levels := lv } : WCfg).clamped = b := by
  show max 1024 b = b
  omega

/-- Behaviourally: a requested block size below `MIN_BLOCK_SIZE` produces exactly the same file
    (and log) as `MIN_BLOCK_SIZE` itself; with the default 1024, every request `≤ 1024` behaves as
    1024. -/
theorem C15_clamp_behaviour (cd : Codec) (cfg : WCfg) (kvs : List Entry)
    (hb : cfg.blockSize ≤ cfg.minBlock) :
    W.run cd cfg kvs = W.run cd { cfg with blockSize := cfg.minBlock } kvs := by
  apply W.run_cfg_indep
  · show max cfg.minBlock cfg.blockSize = max cfg.minBlock cfg.minBlock
    omega
  · rfl
  · rfl

theorem C15_clamp_behaviour_default (cd : Codec) (b iv lv : Nat) (kvs : List Entry) (hb : b ≤ 1024) :
    W.run cd { blockSize := b, interval := iv, levels := lv } kvs
      = W.run cd { blockSize := 1024, interval := iv, levels := lv } kvs :=
  C15_clamp_behaviour cd { blockSize := b, interval := iv, levels := lv } kvs hb

/-! ### Concrete instance -/

def key (n : Nat) : Bytes := [UInt8.ofNat (n / 256), UInt8.ofNat (n % 256)]
def kvs (n : Nat) : List Entry := (List.range n).map (fun i => (key i, [UInt8.ofNat i, 7, 7, 7]))
def cfg : WCfg := { blockSize := 0, minBlock := 32, interval := 2, levels := 3 }

/-- (level, number of items, raw length) of every emitted block. -/
def summ (r : Except Trap (Bytes × List Emitted)) : Except Trap (List (Nat × Nat × Nat)) :=
  match r with
  | .ok (_, log) => .ok (log.map (fun e => (e.level, e.items.length, e.raw.length)))
  | .error t => .error t

/-- `B = 32`, 3 index levels, 40 entries: data blocks are cut at 44 bytes (3 entries: 12 + 2·8
    after the second entry is 28 < 32), level-1 and level-2 index blocks at 36 bytes (2 entries);
    the level-3 block (list index 1, directly below the root) is never cut and reaches 68 bytes;
    the last five blocks and the partial blocks before them come from `finish`. -/
example : summ (W.run Codec.none cfg (kvs 40)) = .ok
    [(0, 3, 44), (0, 3, 44), (1, 2, 36), (0, 3, 44), (0, 3, 44), (1, 2, 36), (2, 2, 36),
     (0, 3, 44), (0, 3, 44), (1, 2, 36), (0, 3, 44), (0, 3, 44), (1, 2, 36), (2, 2, 36),
     (0, 3, 44), (0, 3, 44), (1, 2, 36), (0, 3, 44), (0, 3, 44), (1, 2, 36), (2, 2, 36),
     (0, 3, 44), (0, 1, 20), (1, 2, 36), (2, 1, 24), (3, 4, 68), (4, 1, 24)] := by rfl

example : cfg.clamped = 32 := rfl

/-- The hypotheses of `C15_cut` / `C15_cut_strict` / `C15_bound_strict` are satisfiable. -/
example : ∃ file log, W.run Codec.none cfg (kvs 40) = .ok (file, log) ∧ 12 < cfg.clamped :=
  ⟨_, _, rfl, by decide⟩

/-- Hypothesis of `C15_clamp_behaviour`. -/
example : cfg.blockSize ≤ cfg.minBlock := by decide

end Grenad.Props.C15

namespace Grenad.Props.C15

/-- Translator tie: the minimum (and default) block size in /repo's current sources are the model's. -/
theorem C15_constants_from_source :
    Grenad.Generated.minBlockSize = 1024 ∧
    Grenad.Generated.minBlockSize = ({ blockSize := 0 } : Grenad.WCfg).minBlock ∧
    Grenad.Generated.defaultBlockSize = 8192 := by decide

end Grenad.Props.C15
