/-
  C16 — I/O per cursor operation is bounded by the index depth.

  One block load = one `seek(Start(off))` + one block read; the reader-cursor model records each in
  `RC.log`.  All bounds below are *structural*: they hold for every in-block cursor implementation
  `ops`, every loader `load` (hence every file, well-formed or not, of any size and any number of
  entries) and every state satisfying the shape invariant `Shape` (an initialised index cursor
  holds `levels + 1` per-level cursors), which holds initially and is preserved.

  Proofs: `Grenad/Proofs/Loads.lean`.
-/
import Grenad.Proofs.Loads
import Grenad.Props.C03

namespace Grenad.Props.C16

open Grenad

variable {β : Type}

/-- The shape invariant holds of a freshly opened cursor (and so does the reachable-state
    condition `Reach`). -/
theorem C16_shape_new (m : Meta.Meta) : Shape (RC.new m : RC β) ∧ Reach (RC.new m : RC β) :=
  ⟨shape_new m, reach_new m⟩

/-- **C16 (loads).** One public cursor operation loads at most `2 * (levels + 2)` blocks, never
    un-logs a load, preserves the shape invariant and leaves `levels` and `base` unchanged.
    Nothing is assumed of `ops`, `load` (the file) or the key being looked up. -/
theorem C16_loads (ops : BlockOps β) (load : Nat → Option β) (fixF1 : Bool) (c : RC β) (op : Op)
    (hs : Shape c) :
    (RC.step ops load fixF1 c op).1.log.length - c.log.length ≤ 2 * (c.levels + 2) ∧
    c.log.length ≤ (RC.step ops load fixF1 c op).1.log.length ∧
    Shape (RC.step ops load fixF1 c op).1 ∧
    (RC.step ops load fixF1 c op).1.levels = c.levels ∧
    (RC.step ops load fixF1 c op).1.base = c.base := by
  have h := step_post ops load fixF1 c op hs
  exact ⟨h.ext.log.length_le.2, h.ext.log.length_le.1, h.shape, h.ext.levels, h.ext.base⟩

/-- The log only grows at the front: the new log is the old one with the newly loaded offsets
    pushed in front (so `log.length` differences do count loads). -/
theorem C16_log_extends (ops : BlockOps β) (load : Nat → Option β) (fixF1 : Bool) (c : RC β)
    (op : Op) (hs : Shape c) :
    ∃ pre : List Nat, (RC.step ops load fixF1 c op).1.log = pre ++ c.log ∧
      pre.length ≤ Op.loadBound c.levels op :=
  (step_spec ops load fixF1 c op hs).ext.log

/-- **Tight per-operation bounds** (`Op.loadBound`): `first`/`last`/`ge`/`eq` ≤ `levels + 2`
    (`levels + 1` index blocks and one data block); `next`/`prev` ≤ `2 * levels + 2`;
    `le` ≤ `2 * levels + 4` (`ge`, then `prev` or `last`); `reset`/`current` load nothing. -/
theorem C16_loads_per_op (ops : BlockOps β) (load : Nat → Option β) (fixF1 : Bool) (c : RC β)
    (op : Op) (hs : Shape c) :
    (RC.step ops load fixF1 c op).1.log.length - c.log.length ≤ Op.loadBound c.levels op :=
  (step_spec ops load fixF1 c op hs).ext.log.length_le.2

/-- From a reachable state (`Reach`: a data block is held only under an initialised index
    cursor) `next`/`prev` load at most `levels + 2` blocks, and `Reach` is preserved.
    (`Op.loadBoundReach`.) -/
theorem C16_loads_per_op_reach (ops : BlockOps β) (load : Nat → Option β) (fixF1 : Bool)
    (c : RC β) (op : Op) (hs : Shape c) (hr : Reach c) :
    (RC.step ops load fixF1 c op).1.log.length - c.log.length ≤ Op.loadBoundReach c.levels op ∧
    Reach (RC.step ops load fixF1 c op).1 :=
  let h := step_spec_reach ops load fixF1 c op hs hr
  ⟨h.ext.log.length_le.2, h.reach hr⟩

/-- `next`/`prev` with a data block held under an initialised index cursor (the normal case of
    an iteration): at most `levels` index blocks are reloaded, plus one data block. -/
theorem C16_loads_iteration (ops : BlockOps β) (load : Nat → Option β) (fixF1 : Bool) (c : RC β)
    (hs : Shape c) (hi : c.inner.isSome) (hc : c.cur.isSome) :
    (c.next ops load fixF1).1.log.length - c.log.length ≤ c.levels + 1 ∧
    (c.prev ops load fixF1).1.log.length - c.log.length ≤ c.levels + 1 :=
  ⟨((next_spec ops load fixF1 c hs).held hi hc).log.length_le.2,
   ((prev_spec ops load fixF1 c hs).held hi hc).log.length_le.2⟩

/-- **C16 (histories).** Over any history of operations from a freshly opened cursor, every
    single step loads at most `2 * (index_levels + 2)` blocks.  The bound mentions neither the
    number of entries, nor the file size, nor the length of the history, nor the keys looked up:
    it depends on the index depth recorded in the metadata only. -/
theorem C16_history (ops : BlockOps β) (load : Nat → Option β) (fixF1 : Bool) (m : Meta.Meta)
    (hist : List Op) :
    (RC.loadCounts ops load fixF1 (RC.new m) hist).length = hist.length ∧
    ∀ n ∈ RC.loadCounts ops load fixF1 (RC.new m) hist, n ≤ 2 * (m.levels + 2) :=
  ⟨loadCounts_length ops load fixF1 hist _, loadCounts_le ops load fixF1 (RC.new m) (shape_new m) hist⟩

/-- The same, stated on states: the `i`-th step of the history goes from `p.1` to `p.2`. -/
theorem C16_history_states (ops : BlockOps β) (load : Nat → Option β) (fixF1 : Bool)
    (m : Meta.Meta) (hist : List Op) :
    ∀ p ∈ RC.runStates ops load fixF1 (RC.new m) hist,
      p.2.log.length - p.1.log.length ≤ 2 * (m.levels + 2) ∧ p.1.log.length ≤ p.2.log.length ∧
      p.1.levels = m.levels ∧ p.2.levels = m.levels := by
  intro p hp
  obtain ⟨a, -, d⟩ := runStates_spec ops load fixF1 hist (RC.new m) (shape_new m) p hp
  exact ⟨d.ext.log.length_le.2, d.ext.log.length_le.1, a, d.ext.levels.trans a⟩

/-- **C16 (open).** Opening a file issues at most 2 seeks and reads at most 22 bytes, all within
    the last 22 bytes of the file (and within the file), whatever the bytes. -/
theorem C16_open (b : Bytes) :
    (Meta.openIO b).1 ≤ 2 ∧ (Meta.openIO b).2.1 ≤ 22 ∧ (Meta.openIO b).2.2 ≤ 22 ∧
    (Meta.openIO b).2.2 ≤ b.length ∧ (Meta.openIO b).2.1 ≤ (Meta.openIO b).2.2 + 4 := by
  unfold Meta.openIO
  simp only
  repeat' split
  all_goals simp
  all_goals omega

/-! ### Concrete instances -/

open Grenad.Props.C03 (witnessStore e)

/-- A fresh cursor over the two-level witness file of C03. -/
def c0 : RC LC := { base := 300, levels := 2, inner := none, cur := none }

example : Shape c0 ∧ Reach c0 := ⟨(by intro l h; cases h), (by intro h; cases h)⟩

/-- On a well-formed file (`levels = 2`): `first` costs `levels + 2 = 4` (attained, twice: the
    second `first` reloads every index block because `initial_index_blocks` records the *child*
    offset next to each cursor), `next` costs at most `levels + 1 = 3`. -/
example :
    RC.loadCounts LC.ops witnessStore.load true c0
      [.first, .first, .next, .next, .first, .le [9], .le [2, 5], .prev, .last, .ge [1], .eq [3],
       .reset, .current, .next]
    = [4, 4, 1, 2, 2, 2, 3, 1, 2, 2, 2, 0, 0, 4] := by decide

/-- A malformed file whose index over-claims (`[9]` for a block whose last key is `[4]`). -/
def badStore : Store
  | 30 => some [e 4]
  | 110 => some [([9], be64 30)]
  | 200 => some [([9], be64 110)]
  | 300 => some [([9], be64 200)]
  | _ => none

/-- The uniform bound `2 * (levels + 2) = 8` is attained: `le [7]` = `ge [7]` (3 index blocks,
    1 data block, in-block answer `None`) then `last` (3 index blocks reloaded, 1 data block). -/
example : RC.loadCounts LC.ops badStore.load true c0 [.le [7], .le [7]] = [8, 2] := by decide

example : (RC.run LC.ops badStore.load true c0 [.le [7]]).2 = [.ok (some (e 4))] := by decide

/-- A well-formed chain: every index block below the root has a single entry. -/
def chainStore : Store
  | 0 => some [e 1] | 10 => some [e 2]
  | 100 => some [([1], be64 0)] | 101 => some [([2], be64 10)]
  | 200 => some [([1], be64 100)] | 201 => some [([2], be64 101)]
  | 300 => some [([1], be64 200), ([2], be64 201)]
  | _ => none

/-- `next`/`prev` across a root-level boundary: `levels + 1 = 3` loads (attained). -/
example : RC.loadCounts LC.ops chainStore.load true c0 [.first, .next, .prev] = [4, 3, 3] := by
  decide

/-- A state allowed by `Shape` but not reachable (data block held, index cursor not
    initialised): `next` costs `2 * levels + 2 = 6` loads — `Op.loadBound` is attained, and still
    below the uniform bound. -/
def odd : RC LC :=
  { base := 300, levels := 2, inner := none, cur := some { es := [e 1], pos := some 0 } }

example : Shape odd ∧ ¬ Reach odd := ⟨(by intro l h; cases h), (fun h => by simpa [odd] using h rfl)⟩

example : RC.loadCounts LC.ops chainStore.load true odd [.next] = [6] := by decide

/-- `openIO` on a 22-byte V2 trailer: 2 seeks, 22 bytes, lowest offset-from-end 22. -/
example : Meta.openIO (Meta.encode { version := 2, root := 0, codec := 0, count := 0, levels := 3 })
    = (2, 22, 22) := by decide

end Grenad.Props.C16
