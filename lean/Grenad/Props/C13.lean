/-
  C13 — Opening never panics and accepts exactly byte strings ending in a valid trailer.
  `Meta.parse` is total by construction (its type has no trap outcome and every access is
  guarded); the theorems pin down *which* byte strings it accepts and what it returns.
-/
import Grenad.Model.Meta
import Grenad.Model.IO
import Grenad.Proofs.Wave3IO
import Grenad.Proofs.MetaIOProofs
import Grenad.Generated.Constants

namespace Grenad.Props.C13

open Grenad Grenad.Meta

/-- The last four bytes. -/
def last4 (b : Bytes) : Bytes := b.drop (b.length - 4)

/-- "Ends with a complete trailer: a known magic number, preceded by the full metadata record of
    that version with a known codec id" — stated on the bytes, independently of `parse`. -/
def ValidTrailer (b : Bytes) : Prop :=
  (22 ≤ b.length ∧ leVal (last4 b) = 0x6723D4C4 ∧ (b.getD (b.length - 14) 0).toNat ≤ 5) ∨
  (21 ≤ b.length ∧ leVal (last4 b) = 0x76324D4C ∧ (b.getD (b.length - 13) 0).toNat ≤ 5)

private theorem getD_drop (b : Bytes) (k i : Nat) : (b.drop k).getD i 0 = b.getD (k + i) 0 := by
  simp [List.getD_eq_getElem?_getD, List.getElem?_drop]

/-- Opening succeeds exactly on byte strings ending in a valid trailer. -/
theorem C13_open_iff (b : Bytes) : (∃ m, parse b = .ok m) ↔ ValidTrailer b := by
  unfold parse ValidTrailer last4 magicV1 magicV2
  by_cases h4 : b.length < 4
  · simp [h4]; omega
  · simp only [h4, if_false]
    by_cases m1 : leVal (List.drop (b.length - 4) b) = 0x76324D4C
    · simp only [m1, if_true]
      by_cases h21 : b.length < 21
      · simp [h21]; omega
      · simp only [h21, if_false, getD_drop]
        have e : b.length - 21 + 8 = b.length - 13 := by omega
        rw [e]
        generalize (b.getD (b.length - 13) 0).toNat = c
        by_cases hc : c > 5
        · simp [hc] <;> omega
        · simp [hc] <;> omega
    · simp only [m1, if_false]
      by_cases m2 : leVal (List.drop (b.length - 4) b) = 0x6723D4C4
      · simp only [m2, if_true]
        by_cases h22 : b.length < 22
        · simp [h22]; omega
        · simp only [h22, if_false, getD_drop]
          have e : b.length - 22 + 8 = b.length - 14 := by omega
          rw [e]
          generalize (b.getD (b.length - 14) 0).toNat = c
          by_cases hc : c > 5
          · simp [hc] <;> omega
          · simp [hc] <;> omega
      · simp [m2]

/-- Every rejection is one of the three error values — never a trap. -/
theorem C13_total (b : Bytes) :
    (∃ m, parse b = .ok m) ∨ parse b = .error .io ∨ parse b = .error .badMagic ∨ parse b = .error .badCodec := by
  cases h : parse b with
  | ok m => exact .inl ⟨m, rfl⟩
  | error e => cases e <;> simp

/-- The fields returned are the little-endian fields at their fixed offsets from the end (V2). -/
theorem C13_fields_v2 (b : Bytes) (m : Meta) (h : parse b = .ok m) (hv : m.version = 2) :
    m.root = leVal ((b.drop (b.length - 22)).take 8) ∧
    m.codec = (b.getD (b.length - 14) 0).toNat ∧
    m.count = leVal (((b.drop (b.length - 22)).drop 9).take 8) ∧
    m.levels = (b.getD (b.length - 5) 0).toNat := by
  unfold parse at h
  dsimp only at h
  split at h; · cases h
  split at h
  · split at h; · cases h
    split at h; · cases h
    cases h; simp at hv
  · split at h
    · split at h; · cases h
      split at h; · cases h
      rename_i h22 _
      cases h
      refine ⟨rfl, ?_, rfl, ?_⟩
      · simp only [getD_drop]; congr 2; omega
      · simp only [getD_drop]; congr 2; omega
    · cases h

/-- The fields returned for a version-1 trailer (C10: 21 bytes, no index-levels byte). -/
theorem C13_fields_v1 (b : Bytes) (m : Meta) (h : parse b = .ok m) (hv : m.version = 1) :
    m.root = leVal ((b.drop (b.length - 21)).take 8) ∧
    m.codec = (b.getD (b.length - 13) 0).toNat ∧
    m.count = leVal (((b.drop (b.length - 21)).drop 9).take 8) ∧
    m.levels = 0 := by
  unfold parse at h
  dsimp only at h
  split at h; · cases h
  split at h
  · split at h; · cases h
    split at h; · cases h
    cases h
    refine ⟨rfl, ?_, rfl, rfl⟩
    simp only [getD_drop]; congr 2; omega
  · split at h
    · split at h; · cases h
      split at h; · cases h
      cases h; simp at hv
    · cases h

/-- A truncation of a file is accepted only if its own tail is a valid trailer. -/
theorem C13_truncation (file : Bytes) (n : Nat) :
    (∃ m, parse (file.take n) = .ok m) ↔ ValidTrailer (file.take n) :=
  C13_open_iff _

/-- Crash consistency of the sink: whatever schedule of partial writes, interruptions and a
    fault the sink applies, the bytes it holds are a prefix of the fault-free byte stream
    (writes are append-only; the trailer is written last). -/
theorem C13_crash_prefix (bufs : List Bytes) (s : IOM.Sink) (sch : List IOM.WResp) :
    ∃ rest, s.data ++ bufs.flatten = (IOM.writeMany bufs s sch).1.data ++ rest := by
  -- single write_all first
  have one : ∀ (sch : List IOM.WResp) (buf : Bytes) (s : IOM.Sink),
      ∃ rest, s.data ++ buf = (IOM.writeAll buf s sch).1.data ++ rest ∧
        ((IOM.writeAll buf s sch).2.2 = none → rest = []) := by
    intro sch
    induction sch with
    | nil => intro buf s; exact ⟨[], by simp [IOM.writeAll]⟩
    | cons r rs ih =>
      intro buf s
      unfold IOM.writeAll
      by_cases he : buf.isEmpty
      · simp only [he, if_true]
        have : buf = [] := by simpa using he
        exact ⟨[], by simp [this]⟩
      · have he' : buf.isEmpty = false := by simpa using he
        simp only [he', Bool.false_eq_true, if_false]
        cases r with
        | accept n =>
          simp only
          obtain ⟨rest, h1, h2⟩ := ih (buf.drop (max 1 (min n buf.length)))
            { data := s.data ++ buf.take (max 1 (min n buf.length)), count := s.count + max 1 (min n buf.length) }
          refine ⟨rest, ?_, h2⟩
          rw [← h1]; simp [List.append_assoc]
        | interrupted => simpa using ih buf s
        | fail tag => exact ⟨buf, by simp⟩
  induction bufs generalizing s sch with
  | nil => exact ⟨[], by simp [IOM.writeMany]⟩
  | cons b bs ih =>
    obtain ⟨rest, h1, h2⟩ := one sch b s
    unfold IOM.writeMany
    cases hw : IOM.writeAll b s sch with
    | mk s' p =>
      cases p with
      | mk sch' r =>
        cases r with
        | none =>
          simp only
          have hr : rest = [] := h2 (by simp [hw])
          obtain ⟨rest2, h3⟩ := ih s' sch'
          refine ⟨rest2, ?_⟩
          rw [← h3]
          have : s.data ++ b = s'.data := by simpa [hw, hr] using h1
          simp [← this, List.append_assoc]
        | some t =>
          simp only
          refine ⟨rest ++ bs.flatten, ?_⟩
          have : s.data ++ b = s'.data ++ rest := by simpa [hw] using h1
          simp [← List.append_assoc, this]

-- non-vacuity: a concrete valid trailer and a concrete truncated one
example : ValidTrailer (le64 7 ++ [5] ++ le64 3 ++ [2] ++ le32 0x6723D4C4) := by
  unfold ValidTrailer last4; left; decide
example : ¬ ValidTrailer ((le64 7 ++ [5] ++ le64 3 ++ [2] ++ le32 0x6723D4C4).take 21) := by
  unfold ValidTrailer last4; decide

end Grenad.Props.C13

/-! ### The writer stopped by a crash (`Grenad.Model.WriterIO`) -/

namespace Grenad.Props.C13

open Grenad Grenad.Meta Grenad.Wave3

section
variable {cd : Codec} {cfg : WCfg} {es : List Entry} {file : Bytes} {log : List Emitted}
  {m : Meta}

/-- **C13, crash half.**  Whatever the sink's schedule (partial writes, interruptions, a fault
    anywhere), the bytes in the sink are a prefix of the file the pure writer returns. -/
theorem C13_writer_crash (H : WriterHyps cd cfg es) (hrun : W.run cd cfg es = .ok (file, log))
    (hfile : file.length < 2 ^ 64) (hcount : es.length < 2 ^ 64) (hid : cd.id ≤ 5)
    (hm : parse file = .ok m) (sch : List IOM.WResp) :
    ∃ rest, file = (W.runIO cd log m sch).1.data ++ rest := by
  obtain ⟨rest, h⟩ := C13_crash_prefix (W.writes cd log m) {} sch
  refine ⟨rest, ?_⟩
  rw [← writes_flatten_run H hrun hfile hcount hid hm]
  have h' : ([] : Bytes) ++ (W.writes cd log m).flatten = (W.runIO cd log m sch).1.data ++ rest := h
  simpa using h'

/-- A writer stopped strictly before the first byte of the trailer (the sink holds a prefix of
    the block area `log.flatMap blockBytes`): opening what the sink holds succeeds *iff* those
    bytes themselves end in a valid trailer — nothing of the writer's own trailer is there to be
    found.  (Instance of `C13_open_iff`.  It is *not* claimed that such a prefix is always
    rejected: block payloads are arbitrary user bytes and may contain a trailer image; likewise
    for a cut inside the 22-byte trailer.) -/
theorem C13_writer_crash_rejected (H : WriterHyps cd cfg es)
    (hrun : W.run cd cfg es = .ok (file, log)) (hfile : file.length < 2 ^ 64)
    (hcount : es.length < 2 ^ 64) (hid : cd.id ≤ 5) (hm : parse file = .ok m)
    (sch : List IOM.WResp)
    (hbefore : ∃ r, log.flatMap (fun e => W.blockBytes cd e.raw) = (W.runIO cd log m sch).1.data ++ r) :
    ((∃ m', parse (W.runIO cd log m sch).1.data = .ok m') ↔
      ValidTrailer (W.runIO cd log m sch).1.data) ∧
    (∃ n, n < file.length - 22 + 1 ∧ (W.runIO cd log m sch).1.data = file.take n) := by
  refine ⟨C13_open_iff _, ?_⟩
  obtain ⟨hmeq, -, hf⟩ := run_trailer H hrun hfile hcount hid hm
  obtain ⟨r, hr⟩ := hbefore
  refine ⟨(W.runIO cd log m sch).1.data.length, ?_, ?_⟩
  · have hl : (encode m).length = 22 := by rw [hmeq]; simp [encode]
    have := congrArg List.length hr
    rw [hf]
    simp only [List.length_append, hl] at this ⊢
    omega
  · rw [hf, hr, List.append_assoc, List.take_left]

/-- A crash that leaves fewer than 21 bytes can never be opened (`Err(Io)`, short seek). -/
theorem C13_writer_crash_short (cd : Codec) (log : List Emitted) (m : Meta)
    (sch : List IOM.WResp) (h : (W.runIO cd log m sch).1.data.length < 21) :
    ∀ m', parse (W.runIO cd log m sch).1.data ≠ .ok m' := by
  intro m' hp
  have := (C13_open_iff _).mp ⟨m', hp⟩
  unfold ValidTrailer at this
  omega

/-- A run stopped by a fault never leaves the complete file: the crashed image differs from
    `file` (it is a *strict* prefix), so a reader that opens it is not reading the intended
    file with its intended trailer position. -/
theorem C13_writer_crash_strict (H : WriterHyps cd cfg es)
    (hrun : W.run cd cfg es = .ok (file, log)) (hfile : file.length < 2 ^ 64)
    (hcount : es.length < 2 ^ 64) (hid : cd.id ≤ 5) (hm : parse file = .ok m)
    (sch : List IOM.WResp) (t : Nat) (hfault : (W.runIO cd log m sch).2.2 = some t) :
    (W.runIO cd log m sch).1.data.length < file.length := by
  obtain ⟨_, rest, -, -, hne, hd, -⟩ := (runIO_fault cd log m sch).1 t hfault
  rw [writes_flatten_run H hrun hfile hcount hid hm] at hd
  have := congrArg List.length hd
  have : 0 < rest.length := List.length_pos_iff.mpr hne
  simp only [List.length_append] at *
  omega

end

/-- the instance of `Grenad.Proofs.Wave3IO` crashed after 34 bytes (inside the second block): a
    prefix of the file, stopped before the trailer, and not openable -/
example : ∃ rest, wxFile =
    (W.runIO Codec.none wxLog wxMeta (List.replicate 34 (.accept 1) ++ [.fail 9])).1.data ++ rest :=
  C13_writer_crash wxHyps wxRun wxFile_lt (by decide) (by decide) wxParse _

example : ¬ ValidTrailer
    (W.runIO Codec.none wxLog wxMeta (List.replicate 34 (.accept 1) ++ [.fail 9])).1.data := by
  unfold ValidTrailer last4
  set_option maxRecDepth 100000 in decide

end Grenad.Props.C13

section Audit
open Grenad.Props.C13
#print axioms C13_writer_crash
#print axioms C13_writer_crash_rejected
#print axioms C13_writer_crash_short
#print axioms C13_writer_crash_strict
end Audit

/-! ### Opening through a source that may fail (`Grenad.Model.MetaIO`) -/

namespace Grenad.Props.C13

open Grenad Grenad.IOM Grenad.Meta Grenad.MetaIO

/-- **Open under an arbitrary read schedule (C12 style).**
    (a) No fault in the schedule: no I/O fault is reported.
    (b) A reported fault tag `t` is exactly the first fault of the schedule — everything consumed
        before it was fault-free — and the open returns `Err(Io)`: the fault is neither swallowed
        nor converted into `InvalidFormatVersion` / `InvalidCompressionType` / a `Metadata`.
    (c) If the open reaches the first fault of the schedule (consumes the schedule beyond it), it
        reports that fault's tag, returns `Err(Io)`, and has consumed nothing after the fault. -/
theorem C13_open_fault (b : Bytes) (sch : List RResp) :
    let r := parseIO b sch
    (RFaultFree sch → r.2.2 = none) ∧
    (∀ t, r.2.2 = some t →
      r.1 = .error .io ∧ ∃ used, RFaultFree used ∧ sch = used ++ .fail t :: r.2.1) ∧
    (∀ pre t post, RFaultFree pre → sch = pre ++ .fail t :: post →
      r.2.1.length ≤ post.length → r.2.2 = some t ∧ r.1 = .error .io ∧ r.2.1 = post) := by
  obtain ⟨used, hu, hc⟩ := parseIO_char b sch
  have hff0 : RFaultFree sch → (parseIO b sch).2.2 = none := fun hff => (parseIO_ff hff b).2.1
  generalize parseIO b sch = r at hc hff0 ⊢
  refine ⟨hff0, ?_, ?_⟩
  · intro t ht
    rcases hc with ⟨e, _⟩ | ⟨t', e, hs, hr⟩
    · rw [e] at ht; cases ht
    · rw [e] at ht; cases ht
      exact ⟨hr, used, hu, hs⟩
  · intro pre t post hpre hsch hlen
    rcases hc with ⟨_, hs, _⟩ | ⟨t', e, hs, hr⟩
    · exact (rfault_not_passed hu (hsch ▸ hs) hlen).elim
    · obtain ⟨_, e2, e3⟩ := rfirst_fail_unique _ _ hpre hu (hsch ▸ hs)
      exact ⟨by rw [e, e2], hr, e3.symm⟩

/-- **Never a wrong answer.**  For *any* schedule (faults included) the open either returns
    exactly what the pure parse returns, or returns `Err(Io)` together with the tag of the fault
    that caused it.  In particular it never returns `Ok` with fields other than those of
    `parse b`, and never a `badMagic`/`badCodec` verdict the bytes do not justify. -/
theorem C13_open_never_wrong (b : Bytes) (sch : List RResp) :
    (parseIO b sch).1 = parse b ∨
    ((parseIO b sch).1 = .error .io ∧ (parseIO b sch).2.2.isSome) := by
  obtain ⟨used, hu, hc⟩ := parseIO_char b sch
  rcases hc with ⟨_, _, hr⟩ | ⟨t, e, _, hr⟩
  · exact .inl hr
  · exact .inr ⟨hr, by rw [e]; rfl⟩

/-- An `Ok` through any schedule is the `Ok` of the pure parse. -/
theorem C13_open_ok_sound (b : Bytes) (sch : List RResp) (m : Meta)
    (h : (parseIO b sch).1 = .ok m) : parse b = .ok m := by
  rcases C13_open_never_wrong b sch with e | ⟨e, _⟩
  · rw [← e, h]
  · rw [e] at h; cases h

/-- **C16, open through the I/O layer.**  Whatever the schedule, every `read_exact(want)` call
    `(pos, want)` the open issues lies within the last 22 bytes of the data and inside the data;
    the `want`s — hence the bytes read, each call delivering at most `want` bytes
    (`C11.readExact_never_wrong`) — sum to at most 22, and to at most the byte count of the
    pure accounting `Meta.openIO` (`C16_open`). -/
theorem C16_open_io (b : Bytes) (sch : List RResp) :
    (∀ p ∈ parseIOReads b sch, b.length - 22 ≤ p.1 ∧ p.1 + p.2 ≤ b.length) ∧
    ((parseIOReads b sch).map Prod.snd).sum ≤ 22 ∧
    ((parseIOReads b sch).map Prod.snd).sum ≤ (openIO b).2.1 :=
  parseIOReads_bounds b sch

/-- a V2 trailer behind two payload bytes; the fault hits the 10th `read` call, inside
    `read_u64(index_block_offset)`: `Err(Io)` with tag 7, the rest of the schedule untouched -/
example : parseIO ([1, 2] ++ [7, 0, 0, 0, 0, 0, 0, 0, 5, 3, 0, 0, 0, 0, 0, 0, 0, 2, 0xC4, 0xD4, 0x23, 0x67])
      (List.replicate 9 (.serve 1) ++ [.fail 7, .serve 1, .fail 8]) =
    (.error .io, [.serve 1, .fail 8], some 7) := by
  simp [parseIO, parseIOL, readExact, List.replicate, leVal, magicV1, magicV2]

/-- the reads issued before that fault: the magic, then the first `read_u64` -/
example : parseIOReads ([1, 2] ++ [7, 0, 0, 0, 0, 0, 0, 0, 5, 3, 0, 0, 0, 0, 0, 0, 0, 2, 0xC4, 0xD4, 0x23, 0x67])
      (List.replicate 9 (.serve 1) ++ [.fail 7, .serve 1, .fail 8]) = [(20, 4), (2, 8)] := by
  simp [parseIOReads, parseIOL, readExact, List.replicate, leVal, magicV1, magicV2]

/-- an invalid codec id (9) is reported right after `read_u8`, before the entry count is read:
    three `read_exact` calls, 13 bytes -/
example : parseIOL [7, 0, 0, 0, 0, 0, 0, 0, 9, 3, 0, 0, 0, 0, 0, 0, 0, 2, 0xC4, 0xD4, 0x23, 0x67] [] =
    (.error .badCodec, [], none, [(18, 4), (0, 8), (8, 1)]) := by
  simp [parseIOL, readExact, leVal, magicV1, magicV2]

end Grenad.Props.C13

section AuditOpen
open Grenad.Props.C13
#print axioms C13_open_fault
#print axioms C13_open_never_wrong
#print axioms C13_open_ok_sound
#print axioms C16_open_io
end AuditOpen

namespace Grenad.Props.C13

/-- Translator tie: the magic numbers, record sizes and accepted codec ids extracted from /repo's
    current sources (regenerated on every run) are exactly the ones the model and `ValidTrailer` use. -/
theorem C13_constants_from_source :
    Grenad.Generated.magicV2 = Grenad.Meta.magicV2 ∧ Grenad.Generated.magicV1 = Grenad.Meta.magicV1 ∧
    Grenad.Generated.magicV2 = 0x6723D4C4 ∧ Grenad.Generated.magicV1 = 0x76324D4C ∧
    Grenad.Generated.metadataV2Size + 4 = 22 ∧ Grenad.Generated.metadataV1Size + 4 = 21 ∧
    Grenad.Generated.acceptedCodecIds = [0, 1, 2, 3, 4, 5] := by decide

end Grenad.Props.C13
