/-
  C13 — Opening never panics and accepts exactly byte strings ending in a valid trailer.
  `Meta.parse` is total by construction (its type has no trap outcome and every access is
  guarded); the theorems pin down *which* byte strings it accepts and what it returns.
-/
import Grenad.Model.Meta
import Grenad.Model.IO

namespace Grenad.Props.C13

open Grenad Grenad.Meta

/-- The last four bytes. -/
def last4 (b : Bytes) : Bytes := b.drop (b.length - 4)

/-- "Ends with a complete trailer: a known magic number, preceded by the full metadata record of
    that version with a known codec id" — stated on the bytes, independently of `parse`. -/
def ValidTrailer (b : Bytes) : Prop :=
  (22 ≤ b.length ∧ leVal (last4 b) = 0x6723D4C4 ∧ (b.getD (b.length - 14) 0).toNat ≤ 5) ∨
  (21 ≤ b.length ∧ leVal (last4 b) = 0x76324D4C ∧ (b.getD (b.length - 13) 0).toNat ≤ 5)

private theorem getD_drop (b : Bytes) (k i : Nat) : (b.drop k).getD i 0 = b.getD (k + i) 0 := by
  simp [List.getD_eq_getElem?_getD, List.getElem?_drop]

/-- Opening succeeds exactly on byte strings ending in a valid trailer. -/
theorem C13_open_iff (b : Bytes) : (∃ m, parse b = .ok m) ↔ ValidTrailer b := by
  unfold parse ValidTrailer last4 magicV1 magicV2
  by_cases h4 : b.length < 4
  · simp [h4]; omega
  · simp only [h4, if_false]
    by_cases m1 : leVal (List.drop (b.length - 4) b) = 0x76324D4C
    · simp only [m1, if_true]
      by_cases h21 : b.length < 21
      · simp [h21]; omega
      · simp only [h21, if_false, getD_drop]
        have e : b.length - 21 + 8 = b.length - 13 := by omega
        rw [e]
        generalize (b.getD (b.length - 13) 0).toNat = c
        by_cases hc : c > 5
        · simp [hc] <;> omega
        · simp [hc] <;> omega
    · simp only [m1, if_false]
      by_cases m2 : leVal (List.drop (b.length - 4) b) = 0x6723D4C4
      · simp only [m2, if_true]
        by_cases h22 : b.length < 22
        · simp [h22]; omega
        · simp only [h22, if_false, getD_drop]
          have e : b.length - 22 + 8 = b.length - 14 := by omega
          rw [e]
          generalize (b.getD (b.length - 14) 0).toNat = c
          by_cases hc : c > 5
          · simp [hc] <;> omega
          · simp [hc] <;> omega
      · simp [m2]

/-- Every rejection is one of the three error values — never a trap. -/
theorem C13_total (b : Bytes) :
    (∃ m, parse b = .ok m) ∨ parse b = .error .io ∨ parse b = .error .badMagic ∨ parse b = .error .badCodec := by
  cases h : parse b with
  | ok m => exact .inl ⟨m, rfl⟩
  | error e => cases e <;> simp

/-- The fields returned are the little-endian fields at their fixed offsets from the end (V2). -/
theorem C13_fields_v2 (b : Bytes) (m : Meta) (h : parse b = .ok m) (hv : m.version = 2) :
    m.root = leVal ((b.drop (b.length - 22)).take 8) ∧
    m.codec = (b.getD (b.length - 14) 0).toNat ∧
    m.count = leVal (((b.drop (b.length - 22)).drop 9).take 8) ∧
    m.levels = (b.getD (b.length - 5) 0).toNat := by
  unfold parse at h
  dsimp only at h
  split at h; · cases h
  split at h
  · split at h; · cases h
    split at h; · cases h
    cases h; simp at hv
  · split at h
    · split at h; · cases h
      split at h; · cases h
      rename_i h22 _
      cases h
      refine ⟨rfl, ?_, rfl, ?_⟩
      · simp only [getD_drop]; congr 2; omega
      · simp only [getD_drop]; congr 2; omega
    · cases h

/-- The fields returned for a version-1 trailer (C10: 21 bytes, no index-levels byte). -/
theorem C13_fields_v1 (b : Bytes) (m : Meta) (h : parse b = .ok m) (hv : m.version = 1) :
    m.root = leVal ((b.drop (b.length - 21)).take 8) ∧
    m.codec = (b.getD (b.length - 13) 0).toNat ∧
    m.count = leVal (((b.drop (b.length - 21)).drop 9).take 8) ∧
    m.levels = 0 := by
  unfold parse at h
  dsimp only at h
  split at h; · cases h
  split at h
  · split at h; · cases h
    split at h; · cases h
    cases h
    refine ⟨rfl, ?_, rfl, rfl⟩
    simp only [getD_drop]; congr 2; omega
  · split at h
    · split at h; · cases h
      split at h; · cases h
      cases h; simp at hv
    · cases h

/-- A truncation of a file is accepted only if its own tail is a valid trailer. -/
theorem C13_truncation (file : Bytes) (n : Nat) :
    (∃ m, parse (file.take n) = .ok m) ↔ ValidTrailer (file.take n) :=
  C13_open_iff _

/-- Crash consistency of the sink: whatever schedule of partial writes, interruptions and a
    fault the sink applies, the bytes it holds are a prefix of the fault-free byte stream
    (writes are append-only; the trailer is written last). -/
theorem C13_crash_prefix (bufs : List Bytes) (s : IOM.Sink) (sch : List IOM.WResp) :
    ∃ rest, s.data ++ bufs.flatten = (IOM.writeMany bufs s sch).1.data ++ rest := by
  -- single write_all first
  have one : ∀ (sch : List IOM.WResp) (buf : Bytes) (s : IOM.Sink),
      ∃ rest, s.data ++ buf = (IOM.writeAll buf s sch).1.data ++ rest ∧
        ((IOM.writeAll buf s sch).2.2 = none → rest = []) := by
    intro sch
    induction sch with
    | nil => intro buf s; exact ⟨[], by simp [IOM.writeAll]⟩
    | cons r rs ih =>
      intro buf s
      unfold IOM.writeAll
      by_cases he : buf.isEmpty
      · simp only [he, if_true]
        have : buf = [] := by simpa using he
        exact ⟨[], by simp [this]⟩
      · have he' : buf.isEmpty = false := by simpa using he
        simp only [he', Bool.false_eq_true, if_false]
        cases r with
        | accept n =>
          simp only
          obtain ⟨rest, h1, h2⟩ := ih (buf.drop (max 1 (min n buf.length)))
            { data := s.data ++ buf.take (max 1 (min n buf.length)), count := s.count + max 1 (min n buf.length) }
          refine ⟨rest, ?_, h2⟩
          rw [← h1]; simp [List.append_assoc]
        | interrupted => simpa using ih buf s
        | fail tag => exact ⟨buf, by simp⟩
  induction bufs generalizing s sch with
  | nil => exact ⟨[], by simp [IOM.writeMany]⟩
  | cons b bs ih =>
    obtain ⟨rest, h1, h2⟩ := one sch b s
    unfold IOM.writeMany
    cases hw : IOM.writeAll b s sch with
    | mk s' p =>
      cases p with
      | mk sch' r =>
        cases r with
        | none =>
          simp only
          have hr : rest = [] := h2 (by simp [hw])
          obtain ⟨rest2, h3⟩ := ih s' sch'
          refine ⟨rest2, ?_⟩
          rw [← h3]
          have : s.data ++ b = s'.data := by simpa [hw, hr] using h1
          simp [← this, List.append_assoc]
        | some t =>
          simp only
          refine ⟨rest ++ bs.flatten, ?_⟩
          have : s.data ++ b = s'.data ++ rest := by simpa [hw] using h1
          simp [← List.append_assoc, this]

-- non-vacuity: a concrete valid trailer and a concrete truncated one
example : ValidTrailer (le64 7 ++ [5] ++ le64 3 ++ [2] ++ le32 0x6723D4C4) := by
  unfold ValidTrailer last4; left; decide
example : ¬ ValidTrailer ((le64 7 ++ [5] ++ le64 3 ++ [2] ++ le32 0x6723D4C4).take 21) := by
  unfold ValidTrailer last4; decide

end Grenad.Props.C13
