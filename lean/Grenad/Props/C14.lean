/-
  C14 — Key and value lengths from 0 to 2^32-1 are framed losslessly.
  Property theorems only; proofs by reference to Grenad.Proofs.*.
-/
import Grenad.Proofs.Frame

namespace Grenad.Props.C14

open Grenad Grenad.Varint

/-- Every length `v < 2^32` encodes to 1..5 bytes that decode back to `v`, consuming exactly the
    encoded bytes, whatever follows them. -/
theorem C14_roundtrip (v : Nat) (hv : v < 2^32) (rest : Bytes) :
    decode32 (encode32 v ++ rest) = some (v, (encode32 v).length)
    ∧ 1 ≤ (encode32 v).length ∧ (encode32 v).length ≤ 5 :=
  ⟨decode_encode v hv rest, encode32_length_pos v, encode32_length_le v⟩

/-- The width changes exactly at the framing boundaries 2^7, 2^14, 2^21, 2^28. -/
theorem C14_width (v : Nat) :
    (encode32 v).length =
      if v < 2^7 then 1 else if v < 2^14 then 2 else if v < 2^21 then 3 else if v < 2^28 then 4 else 5 :=
  encode32_length v

/-- An entry framed by the block writer anywhere in a payload is read back with exactly its key
    and value bytes, and the reader resumes just past it — for all lengths below 2^32. -/
theorem C14_entry (pre post k v : Bytes) (offs : List Nat)
    (hk : k.length < 2^32) (hv : v.length < 2^32) :
    Block.entryAt { payload := pre ++ BW.frame k v ++ post, offsets := offs } pre.length
      = some (k, v, pre.length + (BW.frame k v).length) :=
  entryAt_frame pre post k v offs hk hv

/-- The block writer accepts exactly the lengths the framing covers (`u32::MAX = 2^32 - 1`). -/
theorem C14_writer_accepts (w : BW) (k v : Bytes) (hk : k.length < 2^32) (hv : v.length < 2^32)
    (hord : ∀ lk, w.lastKey = some lk → lk < k) :
    ∃ w', w.insert k v = .ok w' ∧ w'.buffer = w.buffer ++ BW.frame k v := by
  unfold BW.insert
  have h1 : ¬ (k.length > u32Max) := by unfold u32Max; omega
  have h2 : ¬ (v.length > u32Max) := by unfold u32Max; omega
  simp only [h1, h2, if_false]
  cases hl : w.lastKey with
  | none => exact ⟨_, rfl, rfl⟩
  | some lk => simp [hord lk hl]

-- non-vacuity: the hypotheses are met at the extremes
example : (0 : Nat) < 2^32 ∧ (2^32 - 1 : Nat) < 2^32 := by decide
example : decode32 (encode32 (2^32 - 1)) = some (2^32 - 1, 5) := by decide
example : decode32 (encode32 128 ++ [7]) = some (128, 2) := by decide

end Grenad.Props.C14
