/-
  C10 — Version-1 files remain readable with identical results.

  No V1 writer exists, so V1 files are defined from the property text: the blocks of a file with a
  single-level index (index_levels = 0) followed by the 21-byte trailer
  `le64 root ++ [codec] ++ le64 count ++ le32 0x76324D4C`.
-/
import Grenad.Proofs.MetaProofs

namespace Grenad.Props.C10

open Grenad Grenad.MetaP

/-- Re-trailer the blocks `body` of a file as version 1. -/
def toV1 (body : Bytes) (root codec count : Nat) : Bytes :=
  body ++ le64 root ++ [UInt8.ofNat codec] ++ le64 count ++ le32 0x76324D4C

/-- The same blocks with the version-2 trailer of a single-level index. -/
def toV2 (body : Bytes) (root codec count : Nat) : Bytes :=
  body ++ Meta.encode { version := 2, root := root, codec := codec, count := count, levels := 0 }

/-- A V1 file opens as format version 1 with the stored root offset, codec and entry count, and a
    single-level index — this pins down the field order and widths of the 21-byte record. -/
theorem C10_open (body : Bytes) (root codec count : Nat)
    (hr : root < 2^64) (hc : codec ≤ 5) (hn : count < 2^64) :
    Meta.parse (toV1 body root codec count)
      = .ok { version := 1, root := root, codec := codec, count := count, levels := 0 } := by
  have : toV1 body root codec count
      = body ++ Meta.encode { version := 1, root := root, codec := codec, count := count, levels := 0 } := by
    simp [toV1, Meta.encode, Meta.magicV1, List.append_assoc]
  rw [this]; exact parse_encode_v1 body root codec count hr hc hn

/-- The V2 trailer over the same blocks opens with the same root, codec, count and levels. -/
theorem C10_open_v2 (body : Bytes) (root codec count : Nat)
    (hr : root < 2^64) (hc : codec ≤ 5) (hn : count < 2^64) :
    Meta.parse (toV2 body root codec count)
      = .ok { version := 2, root := root, codec := codec, count := count, levels := 0 } :=
  parse_encode_v2 body root codec count 0 hr hc hn (by decide)

/-- Every block lying inside `body` is loaded identically from the V1 and from the V2 file:
    block offsets are absolute from the start of the file and the trailer is never part of a block. -/
theorem C10_same_blocks (cd : Codec) (body : Bytes) (root codec count off : Nat) (hdr : Bytes)
    (h8 : slice? body off 8 = some hdr) (hin : off + 8 + beVal hdr ≤ body.length) :
    loadBlock cd (toV1 body root codec count) off = loadBlock cd (toV2 body root codec count) off := by
  unfold loadBlock
  have h1 : toV1 body root codec count = body ++ (le64 root ++ [UInt8.ofNat codec] ++ le64 count ++ le32 0x76324D4C) := by
    simp [toV1, List.append_assoc]
  rw [h1]; unfold toV2
  rw [loadBlockLen_body_indep cd body _ _ off hdr h8 hin]

/-- Hence the cursors built over the two files start from the same state (same root offset, same
    number of levels) and see the same blocks: every scan, seek, range and prefix result is the
    same function of those block loads (the cursor model reaches the file only through its `load`
    argument; that its results are determined by the file's entries alone is C02/C03). -/
theorem C10_same_cursor (body : Bytes) (root codec count : Nat)
    (hr : root < 2^64) (hc : codec ≤ 5) (hn : count < 2^64) :
    ∀ m1 m2, Meta.parse (toV1 body root codec count) = .ok m1 →
      Meta.parse (toV2 body root codec count) = .ok m2 →
      (RC.new m1 : RC BlockCursor).base = (RC.new m2 : RC BlockCursor).base ∧
      (RC.new m1 : RC BlockCursor).levels = (RC.new m2 : RC BlockCursor).levels ∧
      m1.count = m2.count ∧ m1.codec = m2.codec ∧ m1.version = 1 := by
  intro m1 m2 h1 h2
  rw [C10_open body root codec count hr hc hn] at h1
  rw [C10_open_v2 body root codec count hr hc hn] at h2
  cases h1; cases h2; simp [RC.new]

-- non-vacuity: a concrete V1 trailer over an empty body
example : Meta.parse (toV1 [] 0 5 3) = .ok { version := 1, root := 0, codec := 5, count := 3, levels := 0 } :=
  C10_open [] 0 5 3 (by decide) (by decide) (by decide)

end Grenad.Props.C10
