/-
  C10 — Version-1 files remain readable with identical results.

  No V1 writer exists, so V1 files are defined from the property text: the blocks of a file with a
  single-level index (index_levels = 0) followed by the 21-byte trailer
  `le64 root ++ [codec] ++ le64 count ++ le32 0x76324D4C`.
-/
import Grenad.Proofs.MetaProofs
import Grenad.Proofs.Wave3V1
import Grenad.Props.C01
import Grenad.Generated.Constants

namespace Grenad.Props.C10

open Grenad Grenad.MetaP

/-- Re-trailer the blocks `body` of a file as version 1. -/
def toV1 (body : Bytes) (root codec count : Nat) : Bytes :=
  body ++ le64 root ++ [UInt8.ofNat codec] ++ le64 count ++ le32 0x76324D4C

/-- The same blocks with the version-2 trailer of a single-level index. -/
def toV2 (body : Bytes) (root codec count : Nat) : Bytes :=
  body ++ Meta.encode { version := 2, root := root, codec := codec, count := count, levels := 0 }

/-- A V1 file opens as format version 1 with the stored root offset, codec and entry count, and a
    single-level index — this pins down the field order and widths of the 21-byte record. -/
theorem C10_open (body : Bytes) (root codec count : Nat)
    (hr : root < 2^64) (hc : codec ≤ 5) (hn : count < 2^64) :
    Meta.parse (toV1 body root codec count)
      = .ok { version := 1, root := root, codec := codec, count := count, levels := 0 } := by
  have : toV1 body root codec count
      = body ++ Meta.encode { version := 1, root := root, codec := codec, count := count, levels := 0 } := by
    simp [toV1, Meta.encode, Meta.magicV1, List.append_assoc]
  rw [this]; exact parse_encode_v1 body root codec count hr hc hn

/-- The V2 trailer over the same blocks opens with the same root, codec, count and levels. -/
theorem C10_open_v2 (body : Bytes) (root codec count : Nat)
    (hr : root < 2^64) (hc : codec ≤ 5) (hn : count < 2^64) :
    Meta.parse (toV2 body root codec count)
      = .ok { version := 2, root := root, codec := codec, count := count, levels := 0 } :=
  parse_encode_v2 body root codec count 0 hr hc hn (by decide)

/-- Every block lying inside `body` is loaded identically from the V1 and from the V2 file:
    block offsets are absolute from the start of the file and the trailer is never part of a block. -/
theorem C10_same_blocks (cd : Codec) (body : Bytes) (root codec count off : Nat) (hdr : Bytes)
    (h8 : slice? body off 8 = some hdr) (hin : off + 8 + beVal hdr ≤ body.length) :
    loadBlock cd (toV1 body root codec count) off = loadBlock cd (toV2 body root codec count) off := by
  unfold loadBlock
  have h1 : toV1 body root codec count = body ++ (le64 root ++ [UInt8.ofNat codec] ++ le64 count ++ le32 0x76324D4C) := by
    simp [toV1, List.append_assoc]
  rw [h1]; unfold toV2
  rw [loadBlockLen_body_indep cd body _ _ off hdr h8 hin]

/-- Hence the cursors built over the two files start from the same state (same root offset, same
    number of levels) and see the same blocks: every scan, seek, range and prefix result is the
    same function of those block loads (the cursor model reaches the file only through its `load`
    argument; that its results are determined by the file's entries alone is C02/C03). -/
theorem C10_same_cursor (body : Bytes) (root codec count : Nat)
    (hr : root < 2^64) (hc : codec ≤ 5) (hn : count < 2^64) :
    ∀ m1 m2, Meta.parse (toV1 body root codec count) = .ok m1 →
      Meta.parse (toV2 body root codec count) = .ok m2 →
      (RC.new m1 : RC BlockCursor).base = (RC.new m2 : RC BlockCursor).base ∧
      (RC.new m1 : RC BlockCursor).levels = (RC.new m2 : RC BlockCursor).levels ∧
      m1.count = m2.count ∧ m1.codec = m2.codec ∧ m1.version = 1 := by
  intro m1 m2 h1 h2
  rw [C10_open body root codec count hr hc hn] at h1
  rw [C10_open_v2 body root codec count hr hc hn] at h2
  cases h1; cases h2; simp [RC.new]

-- non-vacuity: a concrete V1 trailer over an empty body
example : Meta.parse (toV1 [] 0 5 3) = .ok { version := 1, root := 0, codec := 5, count := 3, levels := 0 } :=
  C10_open [] 0 5 3 (by decide) (by decide) (by decide)

end Grenad.Props.C10

/-! ### Version-1 files at the byte level

The blocks of a file written with `index_levels = 0`, followed by the 21-byte version-1 trailer
carrying the same root offset, codec id and entry count.  `Wave3.body cd log` is the block area
`log.flatMap (fun e => W.blockBytes cd e.raw)` of the written file; `reader`, `scanForward`,
`scanBackward` are those of `Grenad.Props.C01` (the executable byte-level reader). -/

namespace Grenad.Props.C10

open Grenad Grenad.Assembly Grenad.Wave3 Grenad.Props.C01

/-- The version-1 image of a written file whose parsed trailer is `m`. -/
abbrev fileV1 (cd : Codec) (log : List Emitted) (es : List Entry) (m : Meta.Meta) : Bytes :=
  toV1 (body cd log) m.root cd.id es.length

/-- What opening the version-1 image returns. -/
abbrev metaV1 (cd : Codec) (es : List Entry) (m : Meta.Meta) : Meta.Meta :=
  ⟨1, m.root, cd.id, es.length, 0⟩

theorem toV1_eq_encode (b : Bytes) (root codec count : Nat) :
    toV1 b root codec count = b ++ Meta.encode ⟨1, root, codec, count, 0⟩ := by
  simp [toV1, Meta.encode, Meta.magicV1, List.append_assoc]

section
variable {cd : Codec} {cfg : WCfg} {es : List Entry} {file : Bytes} {log : List Emitted}
  {m : Meta.Meta}

/-- The written file is the version-2 image of its blocks (`toV2`), and the version-1 image is
    below `2^64` bytes. -/
theorem C10_bytes_layout (S : Setting cd cfg es file log) (hl0 : cfg.levels = 0)
    (hm : Meta.parse file = .ok m) :
    file = toV2 (body cd log) m.root cd.id es.length ∧ m.root < (body cd log).length ∧
    (fileV1 cd log es m).length + 1 = file.length := by
  obtain ⟨root, hroot, hf, -, hp, -⟩ := setting_layout S
  rw [hm] at hp
  cases hp
  rw [hl0] at hf
  refine ⟨hf, hroot, ?_⟩
  rw [fileV1, toV1_eq_encode]
  conv => rhs; rw [hf]
  simp [Meta.encode]

/-- **C10, opening.**  The version-1 image opens as format version 1 with the root offset, codec
    and count of the written file and a single-level index. -/
theorem C10_bytes_open (S : Setting cd cfg es file log) (hm : Meta.parse file = .ok m) :
    Meta.parse (fileV1 cd log es m) = .ok (metaV1 cd es m) := by
  obtain ⟨root, hroot, hf, -, hp, -⟩ := setting_layout S
  rw [hm] at hp
  cases hp
  have hb : (body cd log).length ≤ file.length := by rw [hf]; simp
  have := S.hfile
  exact C10_open _ _ _ _ (by simp only; omega) S.hid S.hcount

private theorem v1_len' (S : Setting cd cfg es file log) :
    (body cd log ++ Meta.encode ⟨1, m.root, cd.id, es.length, 0⟩).length < 2 ^ 64 :=
  v1_len S _ _ _

/-- **C10, every history.**  For every finite list of cursor operations, the results of the
    byte-level reader over the version-1 image, from the cursor opened on it, agree with the
    specification cursor over the inserted entries (same statement as `C01_bytes_history`). -/
theorem C10_bytes_history (S : Setting cd cfg es file log) (hl0 : cfg.levels = 0)
    (hm : Meta.parse file = .ok m) (ops : List Op) :
    ∀ x ∈ runBothG (reader cd (fileV1 cd log es m)) es (RC.new (metaV1 cd es m)) .fresh ops,
      Spec.Agree x.1 x.2 := by
  obtain ⟨R, hsim, hR, -⟩ := retrailer_main S _ (v1_len' (m := m) S) hm (metaV1 cd es m) rfl
    hl0.symm
  rw [fileV1, toV1_eq_encode]
  exact runBothG_agree hsim hR ops

/-- **C10, identical results, every history.**  The reader over the version-1 image and the
    reader over the written (version-2) file return the *same* result for every operation of
    every history (including `current()` in positions where the specification leaves the result
    open): both represent the same abstract reader state throughout. -/
theorem C10_bytes_same_history (S : Setting cd cfg es file log) (hl0 : cfg.levels = 0)
    (hm : Meta.parse file = .ok m) (ops : List Op) :
    (runBothG (reader cd (fileV1 cd log es m)) es (RC.new (metaV1 cd es m)) .fresh ops).map Prod.fst
      = (runBothG (reader cd file) es (RC.new m) .fresh ops).map Prod.fst := by
  obtain ⟨root, hok, B1, B2, hT⟩ := retrailer_twin S _ (v1_len' (m := m) S) hm (metaV1 cd es m) rfl
    hl0.symm
  rw [fileV1, toV1_eq_encode, runBothG_map_fst, runBothG_map_fst]
  exact twin_results hok B1 B2 hT ops

/-- … and after any history, for any further operation (seeks after resets, etc.). -/
theorem C10_bytes_same_after (S : Setting cd cfg es file log) (hl0 : cfg.levels = 0)
    (hm : Meta.parse file = .ok m) (ops : List Op) (op : Op) :
    (reader cd (fileV1 cd log es m)
        (stateAfter (reader cd (fileV1 cd log es m)) (RC.new (metaV1 cd es m)) ops) op).2
      = (reader cd file (stateAfter (reader cd file) (RC.new m) ops) op).2 := by
  obtain ⟨root, hok, B1, B2, hT⟩ := retrailer_twin S _ (v1_len' (m := m) S) hm (metaV1 cd es m) rfl
    hl0.symm
  rw [fileV1, toV1_eq_encode]
  exact (twin_step hok B1 B2 (twin_stateAfter hok B1 B2 hT ops) op).1

/-- **C10, identical specified results.**  On the version-1 image and on the version-2 file:
    `ge` / `le` / `eq` return the ceiling / floor / lookup of the query in the inserted entries;
    forward and backward scans of any length coincide, and `next()` × `(n+1)` / `prev()` × `(n+1)`
    return the inserted entries (reversed) then `None`; the range and prefix iterators, in both
    directions, return the same lists — those of the specification. -/
theorem C10_bytes_same_results (S : Setting cd cfg es file log) (hl0 : cfg.levels = 0)
    (hm : Meta.parse file = .ok m) :
    (∀ q, (reader cd (fileV1 cd log es m) (RC.new (metaV1 cd es m)) (.ge q)).2
            = .ok (Spec.ceiling es q) ∧
          (reader cd file (RC.new m) (.ge q)).2 = .ok (Spec.ceiling es q)) ∧
    (∀ q, (reader cd (fileV1 cd log es m) (RC.new (metaV1 cd es m)) (.le q)).2
            = .ok (Spec.floor es q) ∧
          (reader cd file (RC.new m) (.le q)).2 = .ok (Spec.floor es q)) ∧
    (∀ q, (reader cd (fileV1 cd log es m) (RC.new (metaV1 cd es m)) (.eq q)).2
            = .ok (Spec.lookup es q) ∧
          (reader cd file (RC.new m) (.eq q)).2 = .ok (Spec.lookup es q)) ∧
    (∀ n, scanForward cd (fileV1 cd log es m) n (RC.new (metaV1 cd es m))
            = scanForward cd file n (RC.new m)) ∧
    (∀ n, scanBackward cd (fileV1 cd log es m) n (RC.new (metaV1 cd es m))
            = scanBackward cd file n (RC.new m)) ∧
    scanForward cd (fileV1 cd log es m) (es.length + 1) (RC.new (metaV1 cd es m))
      = es.map (fun e => Res.ok (some e)) ++ [Res.ok none] ∧
    scanBackward cd (fileV1 cd log es m) (es.length + 1) (RC.new (metaV1 cd es m))
      = es.reverse.map (fun e => Res.ok (some e)) ++ [Res.ok none] ∧
    (∀ lo hi fuel, fuel > es.length →
      collect (RangeIter.next (reader cd (fileV1 cd log es m))) fuel
          { cursor := RC.new (metaV1 cd es m), lo := lo, hi := hi } [] = some (Spec.range es lo hi) ∧
      collect (RangeIter.next (reader cd file)) fuel
          { cursor := RC.new m, lo := lo, hi := hi } [] = some (Spec.range es lo hi)) ∧
    (∀ lo hi fuel, fuel > es.length →
      collect (RangeIter.nextRev (reader cd (fileV1 cd log es m))) fuel
          { cursor := RC.new (metaV1 cd es m), lo := lo, hi := hi } []
        = some (Spec.range es lo hi).reverse ∧
      collect (RangeIter.nextRev (reader cd file)) fuel
          { cursor := RC.new m, lo := lo, hi := hi } [] = some (Spec.range es lo hi).reverse) ∧
    (∀ p fuel, fuel > es.length →
      collect (PrefixIter.next (reader cd (fileV1 cd log es m))) fuel
          { cursor := RC.new (metaV1 cd es m), pre := p } [] = some (Spec.withPrefix es p) ∧
      collect (PrefixIter.next (reader cd file)) fuel
          { cursor := RC.new m, pre := p } [] = some (Spec.withPrefix es p)) ∧
    (∀ p fuel, fuel > es.length →
      collect (PrefixIter.nextRev (reader cd (fileV1 cd log es m))) fuel
          { cursor := RC.new (metaV1 cd es m), pre := p } [] = some (Spec.withPrefix es p).reverse ∧
      collect (PrefixIter.nextRev (reader cd file)) fuel
          { cursor := RC.new m, pre := p } [] = some (Spec.withPrefix es p).reverse) := by
  obtain ⟨R, hsim, hR, hside⟩ := retrailer_main S _ (v1_len' (m := m) S) hm (metaV1 cd es m) rfl
    hl0.symm
  obtain ⟨root, hok, B1, B2, hT⟩ := retrailer_twin S _ (v1_len' (m := m) S) hm (metaV1 cd es m) rfl
    hl0.symm
  have hasc := S.H.asc
  simp only [fileV1, toV1_eq_encode]
  refine ⟨fun q => ⟨sim_ge hsim hR q, C02_bytes_ge S hm q⟩,
    fun q => ⟨sim_le hsim hasc hR q, C02_bytes_le S hm q⟩,
    fun q => ⟨sim_eq hsim hasc hR q, C02_bytes_eq S hm q⟩,
    fun n => twin_scan hok B1 B2 hT .next n,
    fun n => twin_scan hok B1 B2 hT .prev n,
    scan_next hsim hR, scan_prev hsim hR,
    fun lo hi fuel hf => ⟨IterP.range_collect hsim hasc _ _ hR lo hi fuel hf,
      C04_bytes_range S hm lo hi fuel hf⟩,
    fun lo hi fuel hf => ⟨IterP.range_collect_rev hsim hasc _ _ hR lo hi fuel hf,
      C04_bytes_range_rev S hm lo hi fuel hf⟩,
    fun p fuel hf => ⟨IterP.prefix_collect hsim hasc _ _ hR p fuel hf,
      C05_bytes_prefix S hm p fuel hf⟩,
    fun p fuel hf => ⟨IterP.prefix_collect_rev hsim hasc _ _ hR p
        (IterP.lostCurrentOK_of_mem hsim hasc _ _ hR p (hside _ _ hR)) fuel hf,
      C05_bytes_prefix_rev S hm p fuel hf⟩⟩

/-- Blocks are read identically: at every offset of the log, the loader over the version-1 image
    (whatever root offset its trailer carries) returns the block the loader over the written
    file returns. -/
theorem C10_bytes_same_loads (S : Setting cd cfg es file log) (m : Meta.Meta)
    (e : Emitted) (he : e ∈ log) :
    loadCursor cd (fileV1 cd log es m) e.offset = loadCursor cd file e.offset := by
  rw [fileV1, toV1_eq_encode]
  exact loadCursor_retrailer S _ (v1_len' (m := m) S) he

end

/-! #### A concrete instance: the entries of `Props/C01`, `index_levels = 0` -/

def v1Cfg : WCfg := { blockSize := 0, minBlock := 28, interval := 2, levels := 0 }

theorem v1Hyps : WriterHyps Codec.none v1Cfg exEs :=
  ⟨by decide, fun _ => rfl, by unfold StrictAsc exEs; decide, by simp [exEs]⟩

def v1File2 : Bytes := match W.run Codec.none v1Cfg exEs with | .ok (f, _) => f | .error _ => []
def v1Log : List Emitted := match W.run Codec.none v1Cfg exEs with | .ok (_, l) => l | .error _ => []
def v1Meta : Meta.Meta := match Meta.parse v1File2 with | .ok m => m | .error _ => ⟨0, 0, 0, 0, 0⟩

theorem v1Run : W.run Codec.none v1Cfg exEs = .ok (v1File2, v1Log) := by
  obtain ⟨file, log, h⟩ := T_writer_ok v1Hyps
  simp only [v1File2, v1Log, h]

def v1SizesOK : Bool :=
  decide (v1File2.length < 2 ^ 64) && v1Log.all (fun e => decide (e.raw.length < 2 ^ 32)) &&
    decide (v1Log.map (·.level) = [0, 0, 0, 0, 1]) && decide (v1Meta.version = 2)

theorem v1Sizes : v1SizesOK = true := by
  set_option maxRecDepth 100000 in decide

/-- The hypotheses of the theorems above are satisfiable. -/
theorem v1Setting : Setting Codec.none v1Cfg exEs v1File2 v1Log := by
  have h := v1Sizes
  simp only [v1SizesOK, Bool.and_eq_true, decide_eq_true_eq, List.all_eq_true] at h
  exact ⟨v1Hyps, by decide, v1Run, h.1.1.1, by decide, by decide, h.1.1.2⟩

theorem v1Parse : Meta.parse v1File2 = .ok v1Meta := by
  have h := v1Sizes
  simp only [v1SizesOK, Bool.and_eq_true, decide_eq_true_eq] at h
  have hv := h.2
  unfold v1Meta at hv ⊢
  cases hp : Meta.parse v1File2 with
  | ok m => rfl
  | error e => rw [hp] at hv; simp at hv

example : Meta.parse (fileV1 Codec.none v1Log exEs v1Meta) = .ok (metaV1 Codec.none exEs v1Meta) :=
  C10_bytes_open v1Setting v1Parse

example (ops : List Op) :
    ∀ x ∈ runBothG (reader Codec.none (fileV1 Codec.none v1Log exEs v1Meta)) exEs
        (RC.new (metaV1 Codec.none exEs v1Meta)) .fresh ops, Spec.Agree x.1 x.2 :=
  C10_bytes_history v1Setting rfl v1Parse ops

example (p : Bytes) :
    collect (PrefixIter.nextRev (reader Codec.none (fileV1 Codec.none v1Log exEs v1Meta))) 13
        { cursor := RC.new (metaV1 Codec.none exEs v1Meta), pre := p } [] =
      some (Spec.withPrefix exEs p).reverse :=
  ((C10_bytes_same_results v1Setting rfl v1Parse).2.2.2.2.2.2.2.2.2.2 p 13 (by decide)).1

/-- By evaluation in the kernel (no theorem used): the version-1 image is one byte shorter, opens
    as version 1, scans back the twelve pairs in both directions, and answers a seek. -/
def v1Check : Bool :=
  let f1 := fileV1 Codec.none v1Log exEs v1Meta
  match Meta.parse f1 with
  | .ok m1 =>
    decide (f1.length + 1 = v1File2.length ∧ m1.version = 1 ∧ m1.count = 12 ∧ m1.levels = 0 ∧
      scanForward Codec.none f1 13 (RC.new m1) =
        exEs.map (fun e => Res.ok (some e)) ++ [Res.ok none] ∧
      scanBackward Codec.none f1 13 (RC.new m1) =
        exEs.reverse.map (fun e => Res.ok (some e)) ++ [Res.ok none] ∧
      (reader Codec.none f1 (RC.new m1) (.le [8])).2 = .ok (some ([7, 0], [])))
  | .error _ => false

theorem v1Check_true : v1Check = true := by
  set_option maxRecDepth 100000 in decide

end Grenad.Props.C10

section Audit
open Grenad.Props.C10
#print axioms C10_bytes_layout
#print axioms C10_bytes_open
#print axioms C10_bytes_history
#print axioms C10_bytes_same_history
#print axioms C10_bytes_same_after
#print axioms C10_bytes_same_results
#print axioms C10_bytes_same_loads
#print axioms v1Setting
#print axioms v1Check_true
end Audit

namespace Grenad.Props.C10

/-- Translator tie: the version-1 magic number and record size in /repo's current sources. -/
theorem C10_constants_from_source :
    Grenad.Generated.magicV1 = 0x76324D4C ∧ Grenad.Generated.magicV1 = Grenad.Meta.magicV1 ∧
    Grenad.Generated.metadataV1Size + 4 = 21 := by decide

end Grenad.Props.C10
