/-
  C08 — resource bounds of the sorter: the data held in memory since the last spill stays within
  twice the budget (within the budget itself, rounded up to 16, when reallocation is disabled),
  the number of live chunk handles never exceeds `max_nb_chunks + 2`, and every chunk comes from
  a `ChunkCreator::create` made by a spill or a chunk merge.

  `T := cfg.budget = max threshold MIN_SORTER_MEMORY`, `cap0 cfg` = the first capacity,
  `Reach mf cfg P s sp mg` = "`s` is reached by `new cfg` and successful inserts of entries
  satisfying `P`, `sp` of which spilled and `mg` of which also merged the chunks".
  Nothing is assumed of the merge function.
-/
import Grenad.Proofs.SorterSortedRun

namespace Grenad.Props.C08

open Grenad Grenad.Sorter Grenad.Entries

/-- **C08, volume (general form).**  If every inserted entry needs at most half the budget
    (`2 · (16 + |k| + |v|) ≤ T`), the buffer — hence the data inserted since the last spill — never
    exceeds the larger of the first allocation and `2·T`. -/
theorem C08_volume_general {mf : MergeFn} {cfg : SCfg} {s : Sorter} {sp mg : Nat}
    (r : Reach mf cfg (fun k v => 2 * entrySize k v ≤ cfg.budget) s sp mg) :
    s.entries.bufLen ≤ max (roundUp (cap0 cfg)) (2 * cfg.budget) ∧
    s.entries.entriesLen + 16 * s.entries.boundsCount ≤ s.entries.bufLen ∧
    s.entries.entriesLen = itemsSize s.entries.items := by
  have i := r.core.1.inv
  refine ⟨?_, i.room, i.sum⟩
  refine r.buf (by omega) (by omega) ?_
  intro k v h; omega

/-- **C08, volume.**  With a first capacity within the budget (true for the real constants as
    soon as the threshold is at least 128 KiB, and always when reallocation is disabled) the bytes
    of keys and values inserted since the last spill never exceed twice the budget; neither does
    the allocation. -/
theorem C08_volume {mf : MergeFn} {cfg : SCfg} {s : Sorter} {sp mg : Nat}
    (hcap : cap0 cfg ≤ cfg.budget) (hT : 16 ≤ cfg.budget)
    (r : Reach mf cfg (fun k v => 2 * entrySize k v ≤ cfg.budget) s sp mg) :
    s.entries.entriesLen ≤ 2 * cfg.budget ∧ itemsSize s.entries.items ≤ 2 * cfg.budget ∧
    s.entries.bufLen ≤ 2 * cfg.budget := by
  obtain ⟨h1, h2, h3⟩ := C08_volume_general r
  have := roundUp_lt (cap0 cfg)
  rw [← h3]
  omega

/-- The same under the hypothesis of the property's text: entries of at most a quarter of the
    budget. -/
theorem C08_volume_quarter {mf : MergeFn} {cfg : SCfg} {s : Sorter} {sp mg : Nat}
    (hcap : cap0 cfg ≤ cfg.budget) (hT : 16 ≤ cfg.budget)
    (r : Reach mf cfg (fun k v => entrySize k v ≤ cfg.budget / 4) s sp mg) :
    s.entries.entriesLen ≤ 2 * cfg.budget ∧ itemsSize s.entries.items ≤ 2 * cfg.budget ∧
    s.entries.bufLen ≤ 2 * cfg.budget :=
  C08_volume hcap hT (r.mono (fun k v h => by omega))

/-- **C08, volume with reallocation disabled.**  If no entry needs more than the budget, the
    buffer keeps the size `roundUp T < T + 16` of its only allocation, and the data inserted since
    the last spill (entry bytes plus 16 bytes per entry) stays within it. -/
theorem C08_volume_noRealloc {mf : MergeFn} {cfg : SCfg} {s : Sorter} {sp mg : Nat}
    (hr : cfg.allowRealloc = false)
    (r : Reach mf cfg (fun k v => entrySize k v ≤ cfg.budget) s sp mg) :
    s.entries.bufLen = roundUp cfg.budget ∧ roundUp cfg.budget < cfg.budget + 16 ∧
    s.entries.entriesLen + 16 * s.entries.boundsCount ≤ roundUp cfg.budget ∧
    allocSizes s.events = [roundUp cfg.budget] := by
  have h := r.noRealloc hr (fun k v h => Nat.le_trans h (le_roundUp _))
  have i := r.core.1.inv
  exact ⟨h.1, roundUp_lt _, by rw [← h.1]; exact i.room, h.2⟩

/-- **C08, chunks.**  Between public calls at most `max (max_nb_chunks - 1) 1` chunks exist, and
    at every point of the event sequence the number of live chunk handles (creates minus drops)
    is between 0 and `max_nb_chunks + 2`. -/
theorem C08_chunks {mf : MergeFn} {cfg : SCfg} {P : Bytes → Bytes → Prop} {s : Sorter}
    {sp mg : Nat} (r : Reach mf cfg P s sp mg) :
    s.chunks.length ≤ max (cfg.maxNb - 1) 1 ∧
    ∀ p, p <+: s.events →
      creates p ≤ drops p + (cfg.maxNb + 2) ∧ drops p ≤ creates p := by
  have ⟨c, hl, _⟩ := r.core
  refine ⟨hl, ?_⟩
  intro p hp
  have := (chunkRun_prefix c.chunk (by omega)).2 p hp
  omega

/-- The same across the final `finishChunks`, which adds one chunk. -/
theorem C08_chunks_finish {mf : MergeFn} {cfg : SCfg} {P : Bytes → Bytes → Prop} {s s' : Sorter}
    {sp mg : Nat} (r : Reach mf cfg P s sp mg) (h : finishChunks mf s = .ok s') :
    s'.chunks.length ≤ max (cfg.maxNb - 1) 1 + 1 ∧
    ∀ p, p <+: s'.events →
      creates p ≤ drops p + (cfg.maxNb + 2) ∧ drops p ≤ creates p := by
  have ⟨c, hl, _⟩ := r.core
  have f := finishChunks_post c (by omega) h
  refine ⟨by omega, ?_⟩
  intro p hp
  have := (chunkRun_prefix f.2.2.2.1 (by omega)).2 p hp
  omega

/-- **C08, creator.**  The `create` events are exactly the spills plus the chunk merges, and the
    chunks held are the created ones that have not been dropped. -/
theorem C08_creator {mf : MergeFn} {cfg : SCfg} {P : Bytes → Bytes → Prop} {s : Sorter}
    {sp mg : Nat} (r : Reach mf cfg P s sp mg) :
    creates s.events = sp + mg ∧ s.chunks.length + drops s.events = creates s.events ∧
    s.chunks.length ≤ creates s.events := by
  have ⟨c, _, hc⟩ := r.core
  have := (chunkRun_prefix c.chunk (by omega)).1
  omega

/-- After `finishChunks`: one more create (the final spill). -/
theorem C08_creator_finish {mf : MergeFn} {cfg : SCfg} {P : Bytes → Bytes → Prop}
    {s s' : Sorter} {sp mg : Nat} (r : Reach mf cfg P s sp mg)
    (h : finishChunks mf s = .ok s') :
    creates s'.events = sp + mg + 1 ∧ s'.chunks.length + drops s'.events = creates s'.events := by
  have ⟨c, hl, hc⟩ := r.core
  have f := finishChunks_post c (by omega) h
  have := (chunkRun_prefix f.2.2.2.1 (by omega)).1
  omega

/-- The counters `sp`, `mg` of `Reach` count what they say: an insert from a state satisfying the
    buffer invariant takes the `write_chunk` branch iff `spills` holds and calls `merge_chunks`
    iff `merges` holds. -/
theorem C08_counters_meaning {mf : MergeFn} {s s' : Sorter} {k v : Bytes} (hinv : Inv s.entries)
    (h : Sorter.insert mf s k v = .ok s') :
    (spills s k v = false ∧ ∃ j, s' = plainStep s k v j) ∨
    (spills s k v = true ∧ merges s k v = false ∧ ∃ chunk calls j,
       s' = spillStep s chunk calls k v j) ∨
    (spills s k v = true ∧ merges s k v = true ∧ ∃ chunk calls j merged calls',
       s' = mergeStep (spillStep s chunk calls k v j) merged calls') := by
  rcases insert_cases hinv h with ⟨h1, j, _, e⟩ | ⟨h1, chunk, calls, j, _, hm⟩
  · exact .inl ⟨h1, j, e⟩
  · rcases hm with ⟨h2, e⟩ | ⟨h2, merged, calls', e⟩
    · exact .inr (.inl ⟨h1, h2, chunk, calls, j, e⟩)
    · exact .inr (.inr ⟨h1, h2, chunk, calls, j, merged, calls', e⟩)

/-! ### Concrete instances -/

def mfC : MergeFn := fun _ vs => some vs.flatten

/-- Budget 1024 bytes, first buffer 64 bytes, at most 2 chunks. -/
def cfgC : SCfg :=
  { threshold := 1024, minMemory := 1024, initialSize := 64, allowRealloc := true, maxChunks := 2 }

/-- `n` entries of `16 + 1 + len` bytes each, keys in increasing order. -/
def kvs (n len : Nat) : List Entry :=
  (List.range n).map (fun i => ([i.toUInt8], List.replicate len 0))

private theorem run_reach {mf : MergeFn} {cfg : SCfg} {P : Bytes → Bytes → Prop}
    {l : List Entry} {α : Type} [DecidableEq α] (f : Sorter → α) (a : α) (hs : KeySorted l)
    (hl : ∀ kv ∈ l, P kv.1 kv.2)
    (v : (programW mf cfg l false).toOption.map f = some a) :
    ∃ s sp mg, Reach mf cfg P s sp mg ∧ f s = a := by
  rw [← program_eq_programW _ _ _ _ hs] at v
  cases h : program mf cfg l false with
  | error err => rw [h] at v; simp [Except.toOption] at v
  | ok s =>
    obtain ⟨sp, mg, r⟩ := program_reach (P := P) hl h
    rw [h] at v
    simp only [Except.toOption, Option.map_some, Option.some.injEq] at v
    exact ⟨s, sp, mg, r, v⟩

/-- The hypotheses of `C08_volume` are satisfiable: ten 256-byte entries (a quarter of the
    budget each) force four doublings, two spills and a merge, and end with 480 bytes pending in
    a 1024-byte buffer and one chunk. -/
example : cap0 cfgC ≤ cfgC.budget ∧ 16 ≤ cfgC.budget ∧
    ∃ s sp mg, Reach mfC cfgC (fun k v => entrySize k v ≤ cfgC.budget / 4) s sp mg ∧
      (s.entries.bufLen, s.entries.entriesLen, s.chunks.length, creates s.events) =
        (1024, 480, 1, 3) := by
  refine ⟨by decide, by decide, ?_⟩
  refine run_reach (l := kvs 10 239) _ _ (by unfold KeySorted; decide +kernel) ?_
    (by decide +kernel)
  show ∀ kv ∈ kvs 10 239, entrySize kv.1 kv.2 ≤ cfgC.budget / 4
  decide +kernel

/-- The bound `max_nb_chunks + 2` on live chunk handles is attained when `max_nb_chunks = 1`:
    the second spill creates a chunk beside the previous one, and the merge creates its output
    while both are alive. -/
example :
    let cfg : SCfg := { cfgC with maxChunks := 1 }
    ∃ s sp mg, Reach mfC cfg (fun _ _ => True) s sp mg ∧
      ∃ p, p <+: s.events ∧ creates p = drops p + (cfg.maxNb + 2) := by
  intro cfg
  obtain ⟨s, sp, mg, r, hs⟩ := run_reach (mf := mfC) (cfg := cfg) (P := fun _ _ => True)
    (l := kvs 10 239) (fun s => s.events)
    [.alloc 64, .alloc 128, .dealloc 64, .alloc 256, .dealloc 128, .alloc 512, .dealloc 256,
     .alloc 1024, .dealloc 512, .create, .create, .dropChunk, .create, .create, .dropChunk,
     .dropChunk]
    (by unfold KeySorted; decide +kernel) (fun _ _ => trivial) (by decide +kernel)
  refine ⟨s, sp, mg, r, ?_⟩
  rw [hs]
  exact ⟨[.alloc 64, .alloc 128, .dealloc 64, .alloc 256, .dealloc 128, .alloc 512, .dealloc 256,
     .alloc 1024, .dealloc 512, .create, .create, .dropChunk, .create, .create],
    by decide +kernel, by decide +kernel⟩

/-- Reallocation disabled, budget 1024: the hypotheses of `C08_volume_noRealloc` are satisfiable
    (ten 256-byte entries, three spills), the buffer stays at 1024 bytes. -/
example :
    let cfg : SCfg := { cfgC with allowRealloc := false, maxChunks := 25 }
    cfg.allowRealloc = false ∧
    ∃ s sp mg, Reach mfC cfg (fun k v => entrySize k v ≤ cfg.budget) s sp mg ∧
      (s.entries.bufLen, s.chunks.length, allocSizes s.events) = (1024, 2, [1024]) := by
  intro cfg
  refine ⟨rfl, ?_⟩
  refine run_reach (l := kvs 10 239) _ _ (by unfold KeySorted; decide +kernel) ?_
    (by decide +kernel)
  show ∀ kv ∈ kvs 10 239, entrySize kv.1 kv.2 ≤ cfg.budget
  decide +kernel

/-- The size hypothesis cannot be dropped: with reallocation *disabled* and a budget of 1024
    bytes, one entry of 1100 bytes makes `Entries::insert` double the buffer to 2048 bytes (the
    spill that precedes it does not help, the emptied buffer is still too small). -/
example :
    let cfg : SCfg := { cfgC with allowRealloc := false }
    ∃ s sp mg, Reach mfC cfg (fun _ _ => True) s sp mg ∧
      (s.entries.bufLen, allocSizes s.events) = (2048, [1024, 2048]) := by
  intro cfg
  exact run_reach (l := kvs 1 1083) _ _ (by unfold KeySorted; decide +kernel)
    (fun _ _ => trivial) (by decide +kernel)

/-- Likewise with reallocation allowed: entries larger than half the budget can push the buffer
    beyond twice the budget (here 4096 > 2·1024 for one entry of 2100 bytes). -/
example : ∃ s sp mg, Reach mfC cfgC (fun _ _ => True) s sp mg ∧ s.entries.bufLen = 4096 :=
  run_reach (l := kvs 1 2083) _ _ (by unfold KeySorted; decide +kernel)
    (fun _ _ => trivial) (by decide +kernel)

end Grenad.Props.C08
