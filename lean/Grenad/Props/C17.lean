/-
  C17 — the buffer bookkeeping of the sorter (`Entries`, `EntryBoundAlignedBuffer`) never runs a
  guarded primitive out of its domain: no slice out of range, no usize underflow / overflow, no
  zero-sized or oversized allocation, no use after free, no mismatched `dealloc`.

  A *run* is `Sorter.new cfg`, any number of successful `Sorter.insert`s, optionally
  `Sorter.finishChunks` (`Sorter.program`).  `Reach mf cfg P s sp mg` = "`s` is reached by such a
  run prefix whose inserted entries satisfy `P`" (`sp`, `mg` count the spills and chunk merges).
  The merge function `mf` is arbitrary: a failing merge function ends the run with `SErr.merge`,
  which is not a trap.
-/
import Grenad.Proofs.SorterSortedRun

namespace Grenad.Props.C17

open Grenad Grenad.Sorter Grenad.Entries

/-- **C17, invariant.**  After every run prefix (whatever the entries, whatever the merge
    function) the buffer numbers are consistent: the allocation size is a positive multiple of
    16, the two ends do not overlap, one bound record per stored entry, `entries_len` is the sum
    of the stored key and value lengths, and the allocation is live. -/
theorem C17_invariant {mf : MergeFn} {cfg : SCfg} {P : Bytes → Bytes → Prop} {s : Sorter}
    {sp mg : Nat} (r : Reach mf cfg P s sp mg) :
    s.entries.bufLen % 16 = 0 ∧ 16 ≤ s.entries.bufLen ∧
    s.entries.entriesLen + 16 * s.entries.boundsCount ≤ s.entries.bufLen ∧
    s.entries.boundsCount = s.entries.items.length ∧
    s.entries.entriesLen = (s.entries.items.map (fun e => e.1.length + e.2.length)).sum ∧
    s.entries.live = true := by
  have i := r.core.1.inv
  exact ⟨i.align, i.pos, i.room, i.cnt, by rw [i.sum, itemsSize_eq_sum], i.live⟩

/-- The same, for the state returned by a run given as a list of inserts. -/
theorem C17_invariant_program {mf : MergeFn} {cfg : SCfg} {l : List Entry} {s : Sorter}
    (h : program mf cfg l false = .ok s) :
    s.entries.bufLen % 16 = 0 ∧ 16 ≤ s.entries.bufLen ∧
    s.entries.entriesLen + 16 * s.entries.boundsCount ≤ s.entries.bufLen ∧
    s.entries.boundsCount = s.entries.items.length ∧
    s.entries.entriesLen = (s.entries.items.map (fun e => e.1.length + e.2.length)).sum ∧
    s.entries.live = true := by
  obtain ⟨sp, mg, r⟩ := program_reach (P := fun _ _ => True) (fun _ _ => trivial) h
  exact C17_invariant r

/-- **C17, doubling loop.**  Under the invariant `Entries.insert` is completely described: with
    key and value lengths `≤ u32::MAX` it performs the least number `j` of doublings that makes the
    entry fit, then stores it; it can only fail with `arith` when the fuel is exhausted or when the
    doubled size would reach `2^63` (`Layout::from_size_align(..).unwrap()`), and both need
    `used + entry size` to exceed `bufLen · 2^(fuel-1)` resp. `2^62`. -/
theorem C17_entries_insert {e : Entries} (h : Inv e) (k v : Bytes) (fuel : Nat) :
    (∃ j, j < fuel ∧ k.length ≤ u32Max ∧ v.length ≤ u32Max ∧
       Entries.insert e k v fuel = .ok (push (scale e j) k v, reallocEvents e.bufLen j) ∧
       e.used + entrySize k v ≤ e.bufLen * 2 ^ j ∧
       (j = 0 ∨ e.bufLen * 2 ^ j < 2 * (e.used + entrySize k v))) ∨
    (∃ t, Entries.insert e k v fuel = .error t ∧ InsErr e k v fuel t) :=
  insert_spec fuel e h k v

/-- **C17, fuel.**  The fuel `64` of the model's doubling loop is never exhausted and no
    allocation is oversized as long as the entry fits or `used + entry size ≤ 2^62`. -/
theorem C17_fuel {e : Entries} (h : Inv e) (k v : Bytes)
    (hk : k.length ≤ u32Max) (hv : v.length ≤ u32Max)
    (hsz : e.used + entrySize k v ≤ e.bufLen ∨ e.used + entrySize k v ≤ 2 ^ 62) :
    ∃ e' ev, Entries.insert e k v 64 = .ok (e', ev) :=
  insert64_no_trap h k v hk hv hsz

/-- **C17, no trap (one call).**  In a reachable state an insert with admissible lengths never
    traps; when reallocation is allowed the budget must leave room below `2^62`. -/
theorem C17_no_trap_insert {mf : MergeFn} {cfg : SCfg} {P : Bytes → Bytes → Prop} {s : Sorter}
    {sp mg : Nat} (r : Reach mf cfg P s sp mg) (k v : Bytes)
    (hk : k.length ≤ u32Max) (hv : v.length ≤ u32Max)
    (hT : cfg.allowRealloc = true → cfg.budget ≤ 2 ^ 62 - 2 ^ 34) (t : Trap) :
    Sorter.insert mf s k v ≠ .error (.trap t) := by
  have c := r.core.1
  refine insert_no_trap c.inv hk hv ?_ t
  rw [c.cfg_eq]
  intro ha
  have := hT ha
  unfold entrySize boundSize; unfold u32Max at hk hv; omega

/-- **C17, no trap (whole run).**  `new`, every `insert` and the optional `finishChunks` of a
    run never return `.error (.trap _)` — none of `outOfRange`, `arith`, `allocZero`,
    `badDealloc`, `useAfterFree`, `keyTooLong`, `valTooLong` — provided
    * the first capacity is non-zero and below `2^63 - 15`,
    * keys and values are at most `u32::MAX` bytes long,
    * if reallocation is allowed, the budget is at most `2^62 - 2^34`.
    The only possible error is `SErr.merge` (the user's merge function failed). -/
theorem C17_no_trap (mf : MergeFn) (cfg : SCfg) (l : List Entry) (fin : Bool)
    (h0 : 0 < cap0 cfg) (h1 : cap0 cfg + 15 < 2 ^ 63)
    (hT : cfg.allowRealloc = true → cfg.budget ≤ 2 ^ 62 - 2 ^ 34)
    (hl : ∀ kv ∈ l, kv.1.length ≤ u32Max ∧ kv.2.length ≤ u32Max) (t : Trap) :
    program mf cfg l fin ≠ .error (.trap t) :=
  program_no_trap mf cfg l fin h0 h1 hT hl t

/-- **C17, progress.**  With a *total* merge function a complete run returns `.ok`; the
    termination of the chunk merger with a result (`Merger.run`, the subject of the merger
    properties) is taken as a hypothesis. -/
theorem C17_total (mf : MergeFn) (cfg : SCfg) (l : List Entry) (fin : Bool)
    (hmf : ∀ k vs, (mf k vs).isSome) (hrun : ∀ srcs, (Merger.run mf srcs).1.isSome)
    (h0 : 0 < cap0 cfg) (h1 : cap0 cfg + 15 < 2 ^ 63)
    (hT : cfg.allowRealloc = true → cfg.budget ≤ 2 ^ 62 - 2 ^ 34)
    (hl : ∀ kv ∈ l, kv.1.length ≤ u32Max ∧ kv.2.length ≤ u32Max) :
    ∃ s, program mf cfg l fin = .ok s :=
  program_total mf cfg l fin hmf hrun h0 h1 hT hl

/-- **C17, size bound.**  With admissible lengths the allocation size stays below the first
    allocation, twice the budget, or four maximal entries — far below `2^62`. -/
theorem C17_buf_bound {mf : MergeFn} {cfg : SCfg} {s : Sorter} {sp mg : Nat}
    (r : Reach mf cfg LenOk s sp mg) :
    s.entries.bufLen ≤ max (roundUp (cap0 cfg)) (max (2 * cfg.budget) (2 ^ 35 + 56)) := by
  refine r.buf (by omega) (by omega) ?_
  intro k v ⟨hk, hv⟩
  unfold entrySize boundSize; unfold u32Max at hk hv; omega

theorem C17_buf_lt {mf : MergeFn} {cfg : SCfg} {s : Sorter} {sp mg : Nat}
    (r : Reach mf cfg LenOk s sp mg) (h1 : cap0 cfg + 15 < 2 ^ 62) (hT : cfg.budget < 2 ^ 61) :
    s.entries.bufLen < 2 ^ 62 := by
  have := C17_buf_bound r
  have := roundUp_lt (cap0 cfg)
  omega

/-- **C17, allocation pairing.**  The event list of a reachable state is accepted by the
    single-buffer automaton `allocRun` (after `alloc a`, the next allocation event is either
    `alloc b` immediately followed by `dealloc a`, or the final `dealloc a`) and exactly the
    current buffer is live.  Consequently on every prefix of the events the freed sizes are, in
    order, the allocated sizes except for the at most two that are still live. -/
theorem C17_alloc_pairing {mf : MergeFn} {cfg : SCfg} {P : Bytes → Bytes → Prop} {s : Sorter}
    {sp mg : Nat} (r : Reach mf cfg P s sp mg) :
    allocRun .none s.events = some (.one s.entries.bufLen) ∧
    ∀ p, p <+: s.events → ∃ st, allocRun .none p = some st ∧
      allocSizes p = deallocSizes p ++ st.pending ∧ st.pending.length ≤ 2 := by
  have c := r.core.1
  refine ⟨c.alloc, ?_⟩
  intro p hp
  obtain ⟨st, hst⟩ := allocRun_of_prefix c.alloc hp
  exact ⟨st, hst, by simpa [AState.pending] using allocRun_balanced hst, st.pending_length_le⟩

/-- **C17, allocation pairing at the end.**  After `finishChunks` nothing is live: the buffer
    is marked freed, the automaton is back in its empty state, and the list of freed sizes equals
    the list of allocated sizes. -/
theorem C17_alloc_pairing_finish {mf : MergeFn} {cfg : SCfg} {P : Bytes → Bytes → Prop}
    {s s' : Sorter} {sp mg : Nat} (r : Reach mf cfg P s sp mg)
    (h : finishChunks mf s = .ok s') :
    s'.entries.live = false ∧ allocRun .none s'.events = some .none ∧
    allocSizes s'.events = deallocSizes s'.events := by
  have ⟨c, hl, _⟩ := r.core
  have := finishChunks_post c (by omega) h
  exact ⟨this.1, this.2.1, this.2.2.1⟩

/-! ### Concrete instances -/

/-- A merge function (concatenation). -/
def mfC : MergeFn := fun _ vs => some vs.flatten

/-- Budget 1024 bytes, first buffer 64 bytes, at most 2 chunks. -/
def cfgC : SCfg :=
  { threshold := 1024, minMemory := 1024, initialSize := 64, allowRealloc := true, maxChunks := 2 }

/-- `n` entries of 256 bytes each (1-byte keys in increasing order, 239-byte values). -/
def kvs (n : Nat) : List Entry :=
  (List.range n).map (fun i => ([i.toUInt8], List.replicate 239 0))

theorem kvs_sorted : KeySorted (kvs 10) := by unfold KeySorted; decide +kernel

/-- The hypotheses of `C17_no_trap` hold for this configuration and input … -/
example : 0 < cap0 cfgC ∧ cap0 cfgC + 15 < 2 ^ 63 ∧
    (cfgC.allowRealloc = true → cfgC.budget ≤ 2 ^ 62 - 2 ^ 34) ∧
    ∀ kv ∈ kvs 10, kv.1.length ≤ u32Max ∧ kv.2.length ≤ u32Max := by decide +kernel

/-- … and for every default configuration with a threshold up to `2^61`. -/
example (th : Nat) (h : th ≤ 2 ^ 61) :
    let cfg : SCfg := { threshold := th }
    0 < cap0 cfg ∧ cap0 cfg + 15 < 2 ^ 63 ∧
    (cfg.allowRealloc = true → cfg.budget ≤ 2 ^ 62 - 2 ^ 34) := by
  intro cfg
  refine ⟨?_, ?_, fun _ => ?_⟩
  · show 0 < 131072; omega
  · show 131072 + 15 < 2 ^ 63; omega
  · show max th 10485760 ≤ 2 ^ 62 - 2 ^ 34; omega

/-- The run: four doublings (64 → 1024), two spills, one merge of the two chunks, the final
    spill, and the release of the buffer. -/
example : (program mfC cfgC (kvs 10) true).toOption.map (·.events) = some
    [.alloc 64, .alloc 128, .dealloc 64, .alloc 256, .dealloc 128, .alloc 512, .dealloc 256,
     .alloc 1024, .dealloc 512, .create, .create, .create, .dropChunk, .dropChunk, .create,
     .dealloc 1024] := by
  rw [program_eq_programW _ _ _ _ kvs_sorted]; decide +kernel

/-- The run prefix before `finishChunks` reaches a state with 480 bytes pending in a 1024-byte
    buffer and one (merged) chunk. -/
example : ∃ s sp mg, Reach mfC cfgC LenOk s sp mg ∧ s.entries.bufLen = 1024 ∧
    s.entries.entriesLen = 480 ∧ s.chunks.length = 1 := by
  have e : program mfC cfgC (kvs 10) false = programW mfC cfgC (kvs 10) false :=
    program_eq_programW _ _ _ _ kvs_sorted
  have v : (programW mfC cfgC (kvs 10) false).toOption.map
      (fun s => (s.entries.bufLen, s.entries.entriesLen, s.chunks.length)) =
      some (1024, 480, 1) := by decide +kernel
  have hl : ∀ kv ∈ kvs 10, LenOk kv.1 kv.2 := by
    show ∀ kv ∈ kvs 10, kv.1.length ≤ u32Max ∧ kv.2.length ≤ u32Max
    decide +kernel
  rw [← e] at v
  cases h : program mfC cfgC (kvs 10) false with
  | error err => rw [h] at v; simp [Except.toOption] at v
  | ok s =>
    obtain ⟨sp, mg, r⟩ := program_reach (P := LenOk) hl h
    rw [h] at v
    simp only [Except.toOption, Option.map_some, Option.some.injEq, Prod.mk.injEq] at v
    exact ⟨s, sp, mg, r, v⟩

end Grenad.Props.C17
