/-
  C17 — the buffer bookkeeping of the sorter (`Entries`, `EntryBoundAlignedBuffer`) never runs a
  guarded primitive out of its domain: no slice out of range, no usize underflow / overflow, no
  zero-sized or oversized allocation, no use after free, no mismatched `dealloc`.

  A *run* is `Sorter.new cfg`, any number of successful `Sorter.insert`s, optionally
  `Sorter.finishChunks` (`Sorter.program`).  `Reach mf cfg P s sp mg` = "`s` is reached by such a
  run prefix whose inserted entries satisfy `P`" (`sp`, `mg` count the spills and chunk merges).
  The merge function `mf` is arbitrary: a failing merge function ends the run with `SErr.merge`,
  which is not a trap.
-/
import Grenad.Proofs.SorterSortedRun
import Grenad.Proofs.EntriesBytesProofs

namespace Grenad.Props.C17

open Grenad Grenad.Sorter Grenad.Entries

/-- **C17, invariant.**  After every run prefix (whatever the entries, whatever the merge
    function) the buffer numbers are consistent: the allocation size is a positive multiple of
    16, the two ends do not overlap, one bound record per stored entry, `entries_len` is the sum
    of the stored key and value lengths, and the allocation is live. -/
theorem C17_invariant {mf : MergeFn} {cfg : SCfg} {P : Bytes → Bytes → Prop} {s : Sorter}
    {sp mg : Nat} (r : Reach mf cfg P s sp mg) :
    s.entries.bufLen % 16 = 0 ∧ 16 ≤ s.entries.bufLen ∧
    s.entries.entriesLen + 16 * s.entries.boundsCount ≤ s.entries.bufLen ∧
    s.entries.boundsCount = s.entries.items.length ∧
    s.entries.entriesLen = (s.entries.items.map (fun e => e.1.length + e.2.length)).sum ∧
    s.entries.live = true := by
  have i := r.core.1.inv
  exact ⟨i.align, i.pos, i.room, i.cnt, by rw [i.sum, itemsSize_eq_sum], i.live⟩

/-- The same, for the state returned by a run given as a list of inserts. -/
theorem C17_invariant_program {mf : MergeFn} {cfg : SCfg} {l : List Entry} {s : Sorter}
    (h : program mf cfg l false = .ok s) :
    s.entries.bufLen % 16 = 0 ∧ 16 ≤ s.entries.bufLen ∧
    s.entries.entriesLen + 16 * s.entries.boundsCount ≤ s.entries.bufLen ∧
    s.entries.boundsCount = s.entries.items.length ∧
    s.entries.entriesLen = (s.entries.items.map (fun e => e.1.length + e.2.length)).sum ∧
    s.entries.live = true := by
  obtain ⟨sp, mg, r⟩ := program_reach (P := fun _ _ => True) (fun _ _ => trivial) h
  exact C17_invariant r

/-- **C17, doubling loop.**  Under the invariant `Entries.insert` is completely described: with
    key and value lengths `≤ u32::MAX` it performs the least number `j` of doublings that makes the
    entry fit, then stores it; it can only fail with `arith` when the fuel is exhausted or when the
    doubled size would reach `2^63` (`Layout::from_size_align(..).unwrap()`), and both need
    `used + entry size` to exceed `bufLen · 2^(fuel-1)` resp. `2^62`. -/
theorem C17_entries_insert {e : Entries} (h : Inv e) (k v : Bytes) (fuel : Nat) :
    (∃ j, j < fuel ∧ k.length ≤ u32Max ∧ v.length ≤ u32Max ∧
       Entries.insert e k v fuel = .ok (push (scale e j) k v, reallocEvents e.bufLen j) ∧
       e.used + entrySize k v ≤ e.bufLen * 2 ^ j ∧
       (j = 0 ∨ e.bufLen * 2 ^ j < 2 * (e.used + entrySize k v))) ∨
    (∃ t, Entries.insert e k v fuel = .error t ∧ InsErr e k v fuel t) :=
  insert_spec fuel e h k v

/-- **C17, fuel.**  The fuel `64` of the model's doubling loop is never exhausted and no
    allocation is oversized as long as the entry fits or `used + entry size ≤ 2^62`. -/
theorem C17_fuel {e : Entries} (h : Inv e) (k v : Bytes)
    (hk : k.length ≤ u32Max) (hv : v.length ≤ u32Max)
    (hsz : e.used + entrySize k v ≤ e.bufLen ∨ e.used + entrySize k v ≤ 2 ^ 62) :
    ∃ e' ev, Entries.insert e k v 64 = .ok (e', ev) :=
  insert64_no_trap h k v hk hv hsz

/-- **C17, no trap (one call).**  In a reachable state an insert with admissible lengths never
    traps; when reallocation is allowed the budget must leave room below `2^62`. -/
theorem C17_no_trap_insert {mf : MergeFn} {cfg : SCfg} {P : Bytes → Bytes → Prop} {s : Sorter}
    {sp mg : Nat} (r : Reach mf cfg P s sp mg) (k v : Bytes)
    (hk : k.length ≤ u32Max) (hv : v.length ≤ u32Max)
    (hT : cfg.allowRealloc = true → cfg.budget ≤ 2 ^ 62 - 2 ^ 34) (t : Trap) :
    Sorter.insert mf s k v ≠ .error (.trap t) := by
  have c := r.core.1
  refine insert_no_trap c.inv hk hv ?_ t
  rw [c.cfg_eq]
  intro ha
  have := hT ha
  unfold entrySize boundSize; unfold u32Max at hk hv; omega

/-- **C17, no trap (whole run).**  `new`, every `insert` and the optional `finishChunks` of a
    run never return `.error (.trap _)` — none of `outOfRange`, `arith`, `allocZero`,
    `badDealloc`, `useAfterFree`, `keyTooLong`, `valTooLong` — provided
    * the first capacity is non-zero and below `2^63 - 15`,
    * keys and values are at most `u32::MAX` bytes long,
    * if reallocation is allowed, the budget is at most `2^62 - 2^34`.
    The only possible error is `SErr.merge` (the user's merge function failed). -/
theorem C17_no_trap (mf : MergeFn) (cfg : SCfg) (l : List Entry) (fin : Bool)
    (h0 : 0 < cap0 cfg) (h1 : cap0 cfg + 15 < 2 ^ 63)
    (hT : cfg.allowRealloc = true → cfg.budget ≤ 2 ^ 62 - 2 ^ 34)
    (hl : ∀ kv ∈ l, kv.1.length ≤ u32Max ∧ kv.2.length ≤ u32Max) (t : Trap) :
    program mf cfg l fin ≠ .error (.trap t) :=
  program_no_trap mf cfg l fin h0 h1 hT hl t

/-- **C17, progress.**  With a *total* merge function a complete run returns `.ok`; the
    termination of the chunk merger with a result (`Merger.run`, the subject of the merger
    properties) is taken as a hypothesis. -/
theorem C17_total (mf : MergeFn) (cfg : SCfg) (l : List Entry) (fin : Bool)
    (hmf : ∀ k vs, (mf k vs).isSome) (hrun : ∀ srcs, (Merger.run mf srcs).1.isSome)
    (h0 : 0 < cap0 cfg) (h1 : cap0 cfg + 15 < 2 ^ 63)
    (hT : cfg.allowRealloc = true → cfg.budget ≤ 2 ^ 62 - 2 ^ 34)
    (hl : ∀ kv ∈ l, kv.1.length ≤ u32Max ∧ kv.2.length ≤ u32Max) :
    ∃ s, program mf cfg l fin = .ok s :=
  program_total mf cfg l fin hmf hrun h0 h1 hT hl

/-- **C17, size bound.**  With admissible lengths the allocation size stays below the first
    allocation, twice the budget, or four maximal entries — far below `2^62`. -/
theorem C17_buf_bound {mf : MergeFn} {cfg : SCfg} {s : Sorter} {sp mg : Nat}
    (r : Reach mf cfg LenOk s sp mg) :
    s.entries.bufLen ≤ max (roundUp (cap0 cfg)) (max (2 * cfg.budget) (2 ^ 35 + 56)) := by
  refine r.buf (by omega) (by omega) ?_
  intro k v ⟨hk, hv⟩
  unfold entrySize boundSize; unfold u32Max at hk hv; omega

theorem C17_buf_lt {mf : MergeFn} {cfg : SCfg} {s : Sorter} {sp mg : Nat}
    (r : Reach mf cfg LenOk s sp mg) (h1 : cap0 cfg + 15 < 2 ^ 62) (hT : cfg.budget < 2 ^ 61) :
    s.entries.bufLen < 2 ^ 62 := by
  have := C17_buf_bound r
  have := roundUp_lt (cap0 cfg)
  omega

/-- **C17, allocation pairing.**  The event list of a reachable state is accepted by the
    single-buffer automaton `allocRun` (after `alloc a`, the next allocation event is either
    `alloc b` immediately followed by `dealloc a`, or the final `dealloc a`) and exactly the
    current buffer is live.  Consequently on every prefix of the events the freed sizes are, in
    order, the allocated sizes except for the at most two that are still live. -/
theorem C17_alloc_pairing {mf : MergeFn} {cfg : SCfg} {P : Bytes → Bytes → Prop} {s : Sorter}
    {sp mg : Nat} (r : Reach mf cfg P s sp mg) :
    allocRun .none s.events = some (.one s.entries.bufLen) ∧
    ∀ p, p <+: s.events → ∃ st, allocRun .none p = some st ∧
      allocSizes p = deallocSizes p ++ st.pending ∧ st.pending.length ≤ 2 := by
  have c := r.core.1
  refine ⟨c.alloc, ?_⟩
  intro p hp
  obtain ⟨st, hst⟩ := allocRun_of_prefix c.alloc hp
  exact ⟨st, hst, by simpa [AState.pending] using allocRun_balanced hst, st.pending_length_le⟩

/-- **C17, allocation pairing at the end.**  After `finishChunks` nothing is live: the buffer
    is marked freed, the automaton is back in its empty state, and the list of freed sizes equals
    the list of allocated sizes. -/
theorem C17_alloc_pairing_finish {mf : MergeFn} {cfg : SCfg} {P : Bytes → Bytes → Prop}
    {s s' : Sorter} {sp mg : Nat} (r : Reach mf cfg P s sp mg)
    (h : finishChunks mf s = .ok s') :
    s'.entries.live = false ∧ allocRun .none s'.events = some .none ∧
    allocSizes s'.events = deallocSizes s'.events := by
  have ⟨c, hl, _⟩ := r.core
  have := finishChunks_post c (by omega) h
  exact ⟨this.1, this.2.1, this.2.2.1⟩

/-! ### Concrete instances -/

/-- A merge function (concatenation). -/
def mfC : MergeFn := fun _ vs => some vs.flatten

/-- Budget 1024 bytes, first buffer 64 bytes, at most 2 chunks. -/
def cfgC : SCfg :=
  { threshold := 1024, minMemory := 1024, initialSize := 64, allowRealloc := true, maxChunks := 2 }

/-- `n` entries of 256 bytes each (1-byte keys in increasing order, 239-byte values). -/
def kvs (n : Nat) : List Entry :=
  (List.range n).map (fun i => ([i.toUInt8], List.replicate 239 0))

theorem kvs_sorted : KeySorted (kvs 10) := by unfold KeySorted; decide +kernel

/-- The hypotheses of `C17_no_trap` hold for this configuration and input … -/
example : 0 < cap0 cfgC ∧ cap0 cfgC + 15 < 2 ^ 63 ∧
    (cfgC.allowRealloc = true → cfgC.budget ≤ 2 ^ 62 - 2 ^ 34) ∧
    ∀ kv ∈ kvs 10, kv.1.length ≤ u32Max ∧ kv.2.length ≤ u32Max := by decide +kernel

/-- … and for every default configuration with a threshold up to `2^61`. -/
example (th : Nat) (h : th ≤ 2 ^ 61) :
    let cfg : SCfg := { threshold := th }
    0 < cap0 cfg ∧ cap0 cfg + 15 < 2 ^ 63 ∧
    (cfg.allowRealloc = true → cfg.budget ≤ 2 ^ 62 - 2 ^ 34) := by
  intro cfg
  refine ⟨?_, ?_, fun _ => ?_⟩
  · show 0 < 131072; omega
  · show 131072 + 15 < 2 ^ 63; omega
  · show max th 10485760 ≤ 2 ^ 62 - 2 ^ 34; omega

/-- The run: four doublings (64 → 1024), two spills, one merge of the two chunks, the final
    spill, and the release of the buffer. -/
example : (program mfC cfgC (kvs 10) true).toOption.map (·.events) = some
    [.alloc 64, .alloc 128, .dealloc 64, .alloc 256, .dealloc 128, .alloc 512, .dealloc 256,
     .alloc 1024, .dealloc 512, .create, .create, .create, .dropChunk, .dropChunk, .create,
     .dealloc 1024] := by
  rw [program_eq_programW _ _ _ _ kvs_sorted]; decide +kernel

/-- The run prefix before `finishChunks` reaches a state with 480 bytes pending in a 1024-byte
    buffer and one (merged) chunk. -/
example : ∃ s sp mg, Reach mfC cfgC LenOk s sp mg ∧ s.entries.bufLen = 1024 ∧
    s.entries.entriesLen = 480 ∧ s.chunks.length = 1 := by
  have e : program mfC cfgC (kvs 10) false = programW mfC cfgC (kvs 10) false :=
    program_eq_programW _ _ _ _ kvs_sorted
  have v : (programW mfC cfgC (kvs 10) false).toOption.map
      (fun s => (s.entries.bufLen, s.entries.entriesLen, s.chunks.length)) =
      some (1024, 480, 1) := by decide +kernel
  have hl : ∀ kv ∈ kvs 10, LenOk kv.1 kv.2 := by
    show ∀ kv ∈ kvs 10, kv.1.length ≤ u32Max ∧ kv.2.length ≤ u32Max
    decide +kernel
  rw [← e] at v
  cases h : program mfC cfgC (kvs 10) false with
  | error err => rw [h] at v; simp [Except.toOption] at v
  | ok s =>
    obtain ⟨sp, mg, r⟩ := program_reach (P := LenOk) hl h
    rw [h] at v
    simp only [Except.toOption, Option.map_some, Option.some.injEq, Prod.mk.injEq] at v
    exact ⟨s, sp, mg, r, v⟩

/-! ## Byte level: the allocation as ONE byte string used from both ends

  `EntriesB` (Model/EntriesBytes.lean) mirrors `Entries` of src/sorter.rs literally: entry bytes
  written at the back, 16-byte `EntryBound` records (`key_start` counted from the END of the
  buffer, little endian) at the front, every slice access guarded.  `Rep b e view` =
  "`b` and the numeric `e` carry the same numbers (`Abs`), `e` satisfies `Entries.Inv`, and
  `b.buf = bounds ++ gap ++ entry bytes` with every bound inside the entry bytes and denoting the
  corresponding element of `view`", where `view` is a permutation of `e.items` (`e.items` itself
  until the bounds are sorted).  `ResRel R x y` = "`x` and `y` fail with the same error or succeed
  with `R`-related values".  `g` is the arbitrary content of fresh allocations. -/

open Grenad.EntriesB (Rep Abs ResRel)

/-- **C17 (bytes), what `Rep` contains**: the abstraction relation of the task (same three
    numbers, same length, live), the numeric invariant, the non-overlap of the two regions, and
    `view` a permutation of the ghost items. -/
theorem C17_bytes_rep {b : EntriesB} {e : Entries} {view : List Entry} (h : Rep b e view) :
    (b.entriesLen = e.entriesLen ∧ b.boundsCount = e.boundsCount ∧ e.bufLen = b.buf.length ∧
      e.live = true) ∧ Inv e ∧ 16 * b.boundsCount + b.entriesLen ≤ b.buf.length ∧
    b.buf.length < 2 ^ 63 ∧ view.Perm e.items :=
  ⟨⟨h.abs.elen, h.abs.cnt, h.abs.len, h.abs.live⟩, h.inv, h.disjoint, h.small, h.perm⟩

/-- **C17 (bytes), refinement: `with_capacity`.** -/
theorem C17_bytes_refines_withCapacity (g : Nat → Nat → UInt8) (cap : Nat) :
    ResRel (fun rb re => rb.2 = re.2 ∧ Rep rb.1 re.1 [] ∧ re.1.items = [])
      (EntriesB.withCapacity g cap) (Entries.withCapacity cap) :=
  EntriesB.withCapacity_sim g cap

/-- **C17 (bytes), refinement: `insert`** — the simulation.  For EVERY key, value, fuel and
    fresh-memory content: the byte-level doubling loop traps exactly when the numeric one does, with
    the same trap; otherwise both emit the same allocation events, and the results are again
    related, the view gaining `(k, v)` at its end. -/
theorem C17_bytes_refines (g : Nat → Nat → UInt8) (k v : Bytes) (fuel : Nat)
    {b : EntriesB} {e : Entries} {view : List Entry} (h : Rep b e view) :
    ResRel (fun rb re => rb.2 = re.2 ∧ Rep rb.1 re.1 (view ++ [(k, v)]))
      (EntriesB.insert g b k v fuel) (Entries.insert e k v fuel) :=
  EntriesB.insert_sim g k v fuel h

/-- The same, unfolded: success transfers in both directions with the same events … -/
theorem C17_bytes_refines_ok (g : Nat → Nat → UInt8) (k v : Bytes) (fuel : Nat)
    {b : EntriesB} {e : Entries} {view : List Entry} (h : Rep b e view) :
    (∀ e' ev, Entries.insert e k v fuel = .ok (e', ev) →
      ∃ b', EntriesB.insert g b k v fuel = .ok (b', ev) ∧ Rep b' e' (view ++ [(k, v)])) ∧
    (∀ b' ev, EntriesB.insert g b k v fuel = .ok (b', ev) →
      ∃ e', Entries.insert e k v fuel = .ok (e', ev) ∧ Rep b' e' (view ++ [(k, v)])) := by
  have s := EntriesB.insert_sim g k v fuel h
  constructor
  · intro e' ev he
    obtain ⟨⟨b', evb⟩, hb, h1, h2⟩ := s.ok_right he
    simp only at h1 h2
    subst h1
    exact ⟨b', hb, h2⟩
  · intro b' ev hb
    obtain ⟨⟨e', eve⟩, he, h1, h2⟩ := s.ok_left hb
    simp only at h1 h2
    subst h1
    exact ⟨e', he, h2⟩

/-- … and so does every trap. -/
theorem C17_bytes_refines_trap (g : Nat → Nat → UInt8) (k v : Bytes) (fuel : Nat)
    {b : EntriesB} {e : Entries} {view : List Entry} (h : Rep b e view) (t : Trap) :
    EntriesB.insert g b k v fuel = .error t ↔ Entries.insert e k v fuel = .error t :=
  (EntriesB.insert_sim g k v fuel h).error_iff t

/-- **C17 (bytes), refinement: `clear`.** -/
theorem C17_bytes_refines_clear {b : EntriesB} {e : Entries} {view : List Entry}
    (h : Rep b e view) : Rep b.clear e.clear [] ∧ e.clear.items = [] :=
  ⟨h.clear, rfl⟩

/-- **C17 (bytes), refinement: the whole sorter.**  `SorterB` (the sorter over the byte-level
    buffer: `write_chunk` = sort the bound records, iterate the bytes, merge, clear) and `Sorter`
    return the same error, or states with the same chunks, events and merge calls, whose buffers are
    related by `Rep` (bounds in insertion order) as long as the allocation is alive. -/
theorem C17_bytes_refines_program (mf : MergeFn) (g : Nat → Nat → UInt8) (cfg : SCfg)
    (l : List Entry) (fin : Bool) :
    ResRel (fun sb s => SFin sb s ∧ (fin = false → SRep sb s))
      (SorterB.program mf g cfg l fin) (program mf cfg l fin) :=
  SorterB.program_sim mf g cfg l fin

/-- **C17 (bytes), `iter`.**  Iterating the byte buffer decodes every bound as it was encoded and
    slices exactly the bytes of the entry it denotes: the result is the view. -/
theorem C17_bytes_iter {b : EntriesB} {e : Entries} {view : List Entry} (h : Rep b e view) :
    EntriesB.iter b = .ok view :=
  h.iter

/-- **C17 (bytes), `iter` after any run of the buffer**: `with_capacity(cap)` and any sequence of
    inserts (reallocations included, whatever the fresh memory contains) — iterating returns
    exactly the inserted pairs, in insertion order, unaltered; the two regions do not overlap. -/
theorem C17_bytes_iter_run {g : Nat → Nat → UInt8} {cap : Nat} {l : List Entry} {b : EntriesB}
    (h : EntriesB.run g cap l = .ok b) :
    EntriesB.iter b = .ok l ∧ 16 * b.boundsCount + b.entriesLen ≤ b.buf.length :=
  EntriesB.run_iter h

/-- The run of the byte-level buffer succeeds exactly when the numeric run does. -/
theorem C17_bytes_run_refines (g : Nat → Nat → UInt8) (cap : Nat) (l : List Entry) :
    ResRel (fun b e => Rep b e e.items ∧ e.items = l) (EntriesB.run g cap l) (Entries.run cap l) :=
  EntriesB.run_sim g cap l

/-- **C17 (bytes), `iter` in any sorter run**: in the state reached by `new` and any inserts
    (spills and chunk merges included) the byte buffer iterates to the pending entries of the
    numeric sorter, in insertion order. -/
theorem C17_bytes_iter_program {mf : MergeFn} {g : Nat → Nat → UInt8} {cfg : SCfg}
    {l : List Entry} {sb : SorterB} (h : SorterB.program mf g cfg l false = .ok sb) :
    ∃ s, program mf cfg l false = .ok s ∧ sb.chunks = s.chunks ∧
      EntriesB.iter sb.entries = .ok s.entries.items ∧
      16 * sb.entries.boundsCount + sb.entries.entriesLen ≤ sb.entries.buf.length := by
  obtain ⟨s, hs, _, hr⟩ := (SorterB.program_sim mf g cfg l false).ok_left h
  have hr := hr rfl
  exact ⟨s, hs, hr.chunks, hr.rep.iter, hr.rep.disjoint⟩

/-- **C17 (bytes), no out-of-range access in any run.**  Under the hypotheses of `C17_no_trap`
    the byte-level sorter never traps: no slice of the allocation (`readAt` / `writeAt` /
    `split_at`) is out of range, no `usize` subtraction underflows, in `new`, in any `insert`
    (with its reallocations, spills, sorts, iterations) or in the final spill. -/
theorem C17_bytes_in_bounds (mf : MergeFn) (g : Nat → Nat → UInt8) (cfg : SCfg) (l : List Entry)
    (fin : Bool) (h0 : 0 < cap0 cfg) (h1 : cap0 cfg + 15 < 2 ^ 63)
    (hT : cfg.allowRealloc = true → cfg.budget ≤ 2 ^ 62 - 2 ^ 34)
    (hl : ∀ kv ∈ l, kv.1.length ≤ u32Max ∧ kv.2.length ≤ u32Max) (t : Trap) :
    SorterB.program mf g cfg l fin ≠ .error (.trap t) := by
  intro h
  exact C17_no_trap mf cfg l fin h0 h1 hT hl t
    (((SorterB.program_sim mf g cfg l fin).error_iff _).1 h)

/-- **C17 (bytes), no out-of-range access, one call**: from any represented state an insert with
    admissible lengths that fits, or whose total stays below `2^62`, succeeds on the bytes. -/
theorem C17_bytes_in_bounds_insert (g : Nat → Nat → UInt8) {b : EntriesB} {e : Entries}
    {view : List Entry} (h : Rep b e view) (k v : Bytes)
    (hk : k.length ≤ u32Max) (hv : v.length ≤ u32Max)
    (hsz : e.used + entrySize k v ≤ e.bufLen ∨ e.used + entrySize k v ≤ 2 ^ 62) :
    ∃ b' ev, EntriesB.insert g b k v 64 = .ok (b', ev) ∧
      EntriesB.iter b' = .ok (view ++ [(k, v)]) ∧
      16 * b'.boundsCount + b'.entriesLen ≤ b'.buf.length := by
  obtain ⟨e', ev, he⟩ := C17_fuel h.inv k v hk hv hsz
  obtain ⟨b', hb, hr⟩ := (C17_bytes_refines_ok g k v 64 h).1 e' ev he
  exact ⟨b', ev, hb, hr.iter, hr.disjoint⟩

/-- **C17 (bytes) / C07, `sort_by_key(Stable)` then `iter`.**  Sorting permutes the bound records
    only (in place, inside the bounds area); afterwards the buffer iterates to the model's
    `Sorter.sortStable` of the previous view. -/
theorem C17_bytes_sorted_iter {b : EntriesB} {e : Entries} {view : List Entry} (h : Rep b e view) :
    ∃ b', EntriesB.sortBounds b = .ok b' ∧ Rep b' e (sortStable view) ∧
      EntriesB.iter b' = .ok (sortStable view) := by
  obtain ⟨b', hs, hr⟩ := h.sortStable
  exact ⟨b', hs, hr, hr.iter⟩

/-- After any run of the buffer, sorting then iterating yields `sortStable` of the inserted list:
    what `write_chunk` hands to the merge of equal keys (C07). -/
theorem C17_bytes_sorted_iter_run {g : Nat → Nat → UInt8} {cap : Nat} {l : List Entry}
    {b : EntriesB} (h : EntriesB.run g cap l = .ok b) :
    ∃ b', EntriesB.sortBounds b = .ok b' ∧ EntriesB.iter b' = .ok (sortStable l) := by
  obtain ⟨e, _, hr, hi⟩ := (EntriesB.run_sim g cap l).ok_left h
  rw [hi] at hr
  obtain ⟨b', hs, _, hit⟩ := C17_bytes_sorted_iter hr
  exact ⟨b', hs, hit⟩

/-- **Any permuting sort** (`sort_unstable_by_key`, the parallel variants): whatever permutation
    `sort` applies to the keyed bound records, the buffer then iterates to a permutation of the
    previous view, and it is ordered by key in whatever way `sort` orders its output. -/
theorem C17_bytes_permuted_iter {b : EntriesB} {e : Entries} {view : List Entry}
    (h : Rep b e view) (sort : List (Bytes × EntryBound) → List (Bytes × EntryBound))
    (hperm : ∀ l, (sort l).Perm l) :
    ∃ b' view', EntriesB.sortBoundsWith sort b = .ok b' ∧ Rep b' e view' ∧
      EntriesB.iter b' = .ok view' ∧ view'.Perm view ∧
      ∀ R : Bytes → Bytes → Prop, (∀ l, (sort l).Pairwise (fun p q => R p.1 q.1)) →
        view'.Pairwise (fun x y => R x.1 y.1) := by
  obtain ⟨b', view', hs, hr, hp, hR⟩ := h.sortWith sort hperm
  exact ⟨b', view', hs, hr, hr.iter, hp, hR⟩

/-- The round trip of one bound record (`usize`, `u32`, `u32`, little endian, 16 bytes). -/
theorem C17_bytes_bound_roundtrip {a b c : Nat} (ha : a < 2 ^ 64) (hb : b < 2 ^ 32)
    (hc : c < 2 ^ 32) :
    (encodeBound a b c).length = 16 ∧ decodeBound (encodeBound a b c) = ⟨a, b, c⟩ :=
  ⟨EntriesB.encodeBound_length a b c, EntriesB.decodeBound_encodeBound ha hb hc⟩

/-! ### Concrete instance (bytes) -/

/-- Fresh memory is not zeroed: byte `i` of an allocation of `n` bytes is `n + i` (mod 256). -/
def g0 : Nat → Nat → UInt8 := fun n i => (n + i).toUInt8

/-- Five entries (one empty, one of 101 bytes): 21, 38, 19, 16 and 117 bytes with their bounds. -/
def kvsB : List Entry :=
  [([3, 1], [10, 11, 12]), ([2], List.replicate 21 9), ([1, 1, 1], []), ([], []),
   ([0], List.replicate 100 7)]

set_option maxRecDepth 100000 in
/-- Capacity 64; the third insert doubles the buffer to 128, the fifth to 256; iterating the
    bytes returns the five entries. -/
example : (EntriesB.run g0 64 kvsB).toOption.map
      (fun b => (b.buf.length, b.entriesLen, b.boundsCount)) = some (256, 131, 5) ∧
    (EntriesB.run g0 64 kvsB).toOption.bind (fun b => (EntriesB.iter b).toOption) = some kvsB := by
  decide

set_option maxRecDepth 100000 in
/-- The first bytes of that buffer are the bound of `([3, 1], [10, 11, 12])`:
    `key_start = 5`, `key_length = 2`, `data_length = 3`, little endian. -/
example : (EntriesB.run g0 64 kvsB).toOption.map (fun b => b.buf.take 16) =
    some [5, 0, 0, 0, 0, 0, 0, 0, 2, 0, 0, 0, 3, 0, 0, 0] := by
  decide

set_option maxRecDepth 100000 in
/-- `Rep` is satisfiable by that non-trivial state (the hypothesis of `C17_bytes_refines`,
    `C17_bytes_iter`, `C17_bytes_sorted_iter`, …). -/
example : ∃ b e, Rep b e e.items ∧ e.items = kvsB ∧ b.buf.length = 256 := by
  have v : (EntriesB.run g0 64 kvsB).toOption.map (fun b => b.buf.length) = some 256 := by
    decide +kernel
  cases h : EntriesB.run g0 64 kvsB with
  | error t => rw [h] at v; cases v
  | ok b =>
    obtain ⟨e, _, hr, hi⟩ := (EntriesB.run_sim g0 64 kvsB).ok_left h
    rw [h] at v
    exact ⟨b, e, hr, hi, Option.some.inj v⟩

end Grenad.Props.C17
