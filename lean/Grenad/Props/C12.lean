/-
  C12 — Any failure of a user-supplied component (the sink, the source, the merge function)
  surfaces as `Err` from the current call: never a panic, never success, never a different error;
  and when nothing fails no error is reported.

  In the model every fallible component is a value (`some tag`, `none`, `.error _`), so these
  statements are thin: each says where an error value can come from and that it is passed on
  unchanged.  They are nevertheless stated for an *arbitrary* schedule / loader / merge function.
-/
import Grenad.Proofs.IOProofs
import Grenad.Proofs.Wave3IO

namespace Grenad.Props.C12

open Grenad Grenad.IOM

/-! ### The sink -/

/-- `writeMany` under an arbitrary schedule.
    (a) No fault in the schedule: `Ok`.
    (b) An `Err(tag)` is exactly the first fault of the schedule, which was consumed by the call;
        the buffers before the failing one are in the sink completely, then a strict prefix of
        the failing one, and nothing after it.
    (c) `Ok` means everything was written (never success after a failure).
    (d) If the call reaches the first fault of the schedule, it reports that fault's tag. -/
theorem C12_write_fault (bufs : List Bytes) (s : Sink) (sch : List WResp) :
    let r := writeMany bufs s sch
    (WFaultFree sch → r.2.2 = none) ∧
    (∀ t, r.2.2 = some t →
      ∃ used j b k, WFaultFree used ∧ sch = used ++ .fail t :: r.2.1 ∧
        bufs[j]? = some b ∧ k < b.length ∧
        r.1.data = s.data ++ (bufs.take j).flatten ++ b.take k ∧
        r.1.count = s.count + (bufs.take j).flatten.length + k) ∧
    (r.2.2 = none →
      r.1.data = s.data ++ bufs.flatten ∧ ∃ used, WFaultFree used ∧ sch = used ++ r.2.1) ∧
    (∀ pre t post, WFaultFree pre → sch = pre ++ .fail t :: post →
      r.2.1.length ≤ post.length → r.2.2 = some t ∧ r.2.1 = post) := by
  rcases hr : writeMany bufs s sch with ⟨s', rest, err⟩
  obtain ⟨used, hu, hc⟩ := writeMany_char bufs s sch _ _ _ hr
  refine ⟨?_, ?_, ?_, ?_⟩
  · intro hff
    exact (writeMany_ff hff bufs s).1 ▸ by rw [hr]
  · intro t ht
    simp only at ht
    rcases hc with ⟨e, _⟩ | ⟨t', j, b, k, e, hs, hj, hk, hd, hcnt⟩
    · rw [e] at ht; cases ht
    · rw [e] at ht; cases ht
      exact ⟨used, j, b, k, hu, hs, hj, hk, hd, hcnt⟩
  · intro hn
    simp only at hn
    rcases hc with ⟨_, hs, hd, _⟩ | ⟨t', j, b, k, e, _⟩
    · exact ⟨hd, used, hu, hs⟩
    · rw [e] at hn; cases hn
  · intro pre t post hpre hsch hlen
    simp only at hlen ⊢
    rcases hc with ⟨_, hs, _⟩ | ⟨t', j, b, k, e, hs, _⟩
    · exact (wfault_not_passed hu (hsch ▸ hs) hlen).elim
    · obtain ⟨_, e2, e3⟩ := wfirst_fail_unique _ _ hpre hu (hsch ▸ hs)
      exact ⟨by rw [e, e2], e3.symm⟩

/-- The same for a single `write_all`. -/
theorem C12_writeAll_fault (buf : Bytes) (s : Sink) (sch : List WResp) :
    let r := writeAll buf s sch
    (WFaultFree sch → r.2.2 = none) ∧
    (∀ t, r.2.2 = some t →
      ∃ used k, WFaultFree used ∧ sch = used ++ .fail t :: r.2.1 ∧ k < buf.length ∧
        r.1.data = s.data ++ buf.take k) ∧
    (r.2.2 = none → r.1.data = s.data ++ buf) := by
  rcases hr : writeAll buf s sch with ⟨s', rest, err⟩
  obtain ⟨used, hu, hc⟩ := writeAll_char sch buf s _ _ _ hr
  refine ⟨?_, ?_, ?_⟩
  · intro hff
    exact (writeAll_ff hff buf s).1 ▸ by rw [hr]
  · intro t ht
    simp only at ht
    rcases hc with ⟨e, _⟩ | ⟨t', k, e, hs, hk, hd, _⟩
    · rw [e] at ht; cases ht
    · rw [e] at ht; cases ht
      exact ⟨used, k, hu, hs, hk, hd⟩
  · intro hn
    simp only at hn
    rcases hc with ⟨_, _, hd, _⟩ | ⟨t', k, e, _⟩
    · exact hd
    · rw [e] at hn; cases hn

/-! ### The source -/

/-- `read_exact` under an arbitrary schedule.
    (a) No fault and enough data: `Ok`.
    (b) An `Err(tag)` is either UnexpectedEof (tag 0, the data really is too short, no fault was
        consumed) or exactly the first fault of the schedule.
    (c) If the call reaches the first fault of the schedule, it reports that fault's tag. -/
theorem C12_readExact_fault (data : Bytes) (n pos : Nat) (sch : List RResp) :
    let r := readExact data n pos [] sch
    (RFaultFree sch → pos + n ≤ data.length → r.2.2.2 = none) ∧
    (∀ t, r.2.2.2 = some t →
      (t = 0 ∧ data.length < pos + n ∧ ∃ used, RFaultFree used ∧ sch = used ++ r.2.2.1) ∨
      (∃ used, RFaultFree used ∧ sch = used ++ .fail t :: r.2.2.1)) ∧
    (∀ pre t post, RFaultFree pre → sch = pre ++ .fail t :: post →
      r.2.2.1.length ≤ post.length → r.2.2.2 = some t ∧ r.2.2.1 = post) := by
  rcases hr : readExact data n pos [] sch with ⟨out, pos', rest, err⟩
  obtain ⟨used, hu, _, _, hc⟩ := readExact_char data sch n pos [] _ _ _ _ hr
  refine ⟨?_, ?_, ?_⟩
  · intro hff hlen
    exact (readExact_ff hff data n pos [] hlen).2.2.1 ▸ by rw [hr]
  · intro t ht
    simp only at ht
    rcases hc with ⟨e, _⟩ | ⟨e, hs, hl, _⟩ | ⟨t', e, hs, _⟩
    · rw [e] at ht; cases ht
    · rw [e] at ht; cases ht
      exact .inl ⟨rfl, hl, used, hu, hs⟩
    · rw [e] at ht; cases ht
      exact .inr ⟨used, hu, hs⟩
  · intro pre t post hpre hsch hlen
    simp only at hlen ⊢
    rcases hc with ⟨_, hs, _⟩ | ⟨_, hs, _⟩ | ⟨t', e, hs, _⟩
    · exact (rfault_not_passed hu (hsch ▸ hs) hlen).elim
    · exact (rfault_not_passed hu (hsch ▸ hs) hlen).elim
    · obtain ⟨_, e2, e3⟩ := rfirst_fail_unique _ _ hpre hu (hsch ▸ hs)
      exact ⟨by rw [e, e2], e3.symm⟩

/-- `take(limit).read_to_end`: the only error is the first fault of the schedule. -/
theorem C12_readToEndTake_fault (data : Bytes) (limit pos : Nat) (sch : List RResp) :
    let r := readToEndTake data limit pos [] sch
    (RFaultFree sch → r.2.2.2 = none) ∧
    (∀ t, r.2.2.2 = some t → ∃ used, RFaultFree used ∧ sch = used ++ .fail t :: r.2.2.1) ∧
    (∀ pre t post, RFaultFree pre → sch = pre ++ .fail t :: post →
      r.2.2.1.length ≤ post.length → r.2.2.2 = some t ∧ r.2.2.1 = post) := by
  rcases hr : readToEndTake data limit pos [] sch with ⟨out, pos', rest, err⟩
  obtain ⟨used, hu, _, _, hc⟩ := readToEndTake_char data sch limit pos [] _ _ _ _ hr
  refine ⟨?_, ?_, ?_⟩
  · intro hff
    exact (readToEndTake_ff hff data limit pos []).2.2.1 ▸ by rw [hr]
  · intro t ht
    simp only at ht
    rcases hc with ⟨e, _⟩ | ⟨t', e, hs, _⟩
    · rw [e] at ht; cases ht
    · rw [e] at ht; cases ht
      exact ⟨used, hu, hs⟩
  · intro pre t post hpre hsch hlen
    simp only at hlen ⊢
    rcases hc with ⟨_, hs, _⟩ | ⟨t', e, hs, _⟩
    · exact (rfault_not_passed hu (hsch ▸ hs) hlen).elim
    · obtain ⟨_, e2, e3⟩ := rfirst_fail_unique _ _ hpre hu (hsch ▸ hs)
      exact ⟨by rw [e, e2], e3.symm⟩

/-- Loading a block body (`read_u64` then `take(len).read_to_end`) under an arbitrary schedule.
    (a) No fault and a complete header: a body and `Ok`.
    (b) A body is returned iff no error is reported (never a body together with an error, never
        `Ok` without a body).
    (c) An `Err(tag)` is UnexpectedEof on a short header, or exactly the first fault of the
        schedule — whichever of the two reads consumed it.
    (d) If the call reaches the first fault of the schedule, it reports that fault's tag. -/
theorem C12_read_fault (file : Bytes) (off : Nat) (sch : List RResp) :
    let r := loadBodyIO file off sch
    (RFaultFree sch → off + 8 ≤ file.length → r.2.2 = none ∧ r.1.isSome) ∧
    (r.1.isSome ↔ r.2.2 = none) ∧
    (∀ t, r.2.2 = some t →
      (t = 0 ∧ file.length < off + 8 ∧ ∃ used, RFaultFree used ∧ sch = used ++ r.2.1) ∨
      (∃ used, RFaultFree used ∧ sch = used ++ .fail t :: r.2.1)) ∧
    (∀ pre t post, RFaultFree pre → sch = pre ++ .fail t :: post →
      r.2.1.length ≤ post.length → r.2.2 = some t ∧ r.1 = none ∧ r.2.1 = post) := by
  rcases hr : loadBodyIO file off sch with ⟨res, rest, err⟩
  obtain ⟨used, hu, hc⟩ := loadBodyIO_char file off sch _ _ _ hr
  refine ⟨?_, ?_, ?_, ?_⟩
  · intro hff hlen
    simp only
    rcases hc with ⟨e, _, _, hres⟩ | ⟨_, _, _, hl⟩ | ⟨t, _, _, hs⟩
    · exact ⟨e, by rw [hres]; rfl⟩
    · omega
    · rw [hs] at hff; exact absurd hff RFaultFree.no_fail
  · simp only
    rcases hc with ⟨e, _, _, hres⟩ | ⟨e, hres, _⟩ | ⟨t, e, hres, _⟩
    · rw [e, hres]; simp
    · rw [e, hres]; simp
    · rw [e, hres]; simp
  · intro t ht
    simp only at ht
    rcases hc with ⟨e, _⟩ | ⟨e, _, hs, hl⟩ | ⟨t', e, _, hs⟩
    · rw [e] at ht; cases ht
    · rw [e] at ht; cases ht
      exact .inl ⟨rfl, hl, used, hu, hs⟩
    · rw [e] at ht; cases ht
      exact .inr ⟨used, hu, hs⟩
  · intro pre t post hpre hsch hlen
    simp only at hlen ⊢
    rcases hc with ⟨_, hs, _⟩ | ⟨_, _, hs, _⟩ | ⟨t', e, hres, hs⟩
    · exact (rfault_not_passed hu (hsch ▸ hs) hlen).elim
    · exact (rfault_not_passed hu (hsch ▸ hs) hlen).elim
    · obtain ⟨_, e2, e3⟩ := rfirst_fail_unique _ _ hpre hu (hsch ▸ hs)
      exact ⟨by rw [e, e2], hres, e3.symm⟩

/-- A fault makes the schedule-driven block load fail (`none`), which the cursor turns into
    `Res.err` (below): it can never produce a block. -/
theorem C12_load_fault_none (cd : Codec) (file : Bytes) (off : Nat) (sch : List RResp)
    (h : (loadBodyIO file off sch).2.2 ≠ none) : loadBlockIO cd file off sch = none := by
  have := (C12_read_fault file off sch).2.1
  unfold loadBlockIO
  cases hres : (loadBodyIO file off sch).1 with
  | none => rfl
  | some b => rw [hres] at this; exact absurd (this.mp rfl) h

/-! ### The cursor -/

/-- If no load fails, no cursor operation reports an error. -/
theorem C12_cursor_load_fault {β : Type} (ops : BlockOps β) (load : Nat → Option β)
    (fix : Bool) (c : RC β) (op : Op) (hl : ∀ off, (load off).isSome) :
    (RC.step ops load fix c op).2 ≠ .err :=
  step_ne_err_of_total ops load hl fix c op

/-- Contrapositive: an error from a cursor operation means a load failed. -/
theorem C12_cursor_err_has_cause {β : Type} (ops : BlockOps β) (load : Nat → Option β)
    (fix : Bool) (c : RC β) (op : Op) (h : (RC.step ops load fix c op).2 = .err) :
    ∃ off, load off = none := by
  apply Classical.byContradiction
  intro hne
  have hl : ∀ off, (load off).isSome := by
    intro off
    cases hlo : load off with
    | none => exact absurd ⟨off, hlo⟩ hne
    | some b => rfl
  exact step_ne_err_of_total ops load hl fix c op h

/-- Never a wrong entry: a cursor operation that does not report an error under `load` gives the
    very same state and result under every loader `load'` that succeeds (with the same blocks)
    at least where `load` does.  So a result never depends on a load that failed: failing loads
    can only turn the outcome of the operation that attempts them into `.err`. -/
theorem C12_cursor_ok_stable {β : Type} (ops : BlockOps β) (load load' : Nat → Option β)
    (hm : ∀ off b, load off = some b → load' off = some b) (fix : Bool) (c : RC β) (op : Op)
    (h : (RC.step ops load fix c op).2 ≠ .err) :
    RC.step ops load' fix c op = RC.step ops load fix c op :=
  step_load_mono ops load load' hm fix c op h

/-- The reader over the I/O layer under *arbitrary* schedules (faults, short reads, anything):
    each cursor operation either reports an error or returns exactly what the fault-free reader
    returns, and leaves the cursor in exactly the same state. -/
theorem C12_cursor_never_wrong (cd : Codec) (file : Bytes) (sched : Nat → List RResp)
    (fix : Bool) (c : RC BlockCursor) (op : Op) :
    (RC.step byteOps (ioLoader cd file sched) fix c op).2 = .err ∨
    RC.step byteOps (ioLoader cd file sched) fix c op =
      RC.step byteOps (loadCursor cd file) fix c op := by
  by_cases h : (RC.step byteOps (ioLoader cd file sched) fix c op).2 = .err
  · exact .inl h
  · exact .inr (step_load_mono byteOps _ _ (ioLoader_le cd file sched) fix c op h).symm

/-- A failing load of the block an operation needs first makes *that* operation fail: e.g. on a
    fresh cursor every positioning operation starts by loading the root block at `c.base`. -/
theorem C12_cursor_root_fault {β : Type} (ops : BlockOps β) (load : Nat → Option β)
    (c : RC β) (hfresh : c.inner = none) (hroot : load c.base = none) :
    (RC.first ops load c).2 = .err ∧ (RC.last ops load c).2 = .err ∧
    ∀ q, (RC.ge ops load q c).2 = .err := by
  have h : ∀ mov, RC.iterIndex ops load mov c = none := by
    intro mov
    unfold RC.iterIndex
    rw [hfresh]
    simp only
    unfold RC.initialIndex
    rw [hroot]
  refine ⟨?_, ?_, ?_⟩
  · unfold RC.first; rw [h]
  · unfold RC.last; rw [h]
  · intro q; unfold RC.ge; rw [h]

/-- A failing load of the data block an index entry designates makes the operation fail (the
    entry of another block is never returned instead). -/
theorem C12_cursor_enter_fault {β : Type} (ops : BlockOps β) (load : Nat → Option β)
    (c c1 : RC β) (e : Entry) (hidx : RC.iterIndex ops load .first c = some (c1, some e))
    (hload : load (offOf e) = none) : (RC.first ops load c).2 = .err := by
  unfold RC.first
  rw [hidx]
  simp only
  unfold RC.enter
  rw [hload]

/-! ### The merge function -/

/-- One `MergerIter::next`: it makes at most one call of the merge function (recorded at the head
    of `calls`); the result is `mergeErr` iff that call failed, and `Ok((key, merged))` with the
    value the call returned otherwise; with an empty heap no call is made and the result is
    `Ok(None)`.  (`Merger.run` returns `none` iff some call fails: `Props/C06`.) -/
theorem C12_merge_fault (mf : MergeFn) (m : Merger) :
    (heapPop m.heap = none → Merger.next mf m = (m, .ok none)) ∧
    (∀ first h, heapPop m.heap = some (first, h) →
      let vals := first.val :: (popSame first.key (h.length + 1) h []).1.map MSrc.val
      (Merger.next mf m).1.calls = (first.key, vals) :: m.calls ∧
      ((Merger.next mf m).2 = .mergeErr ↔ mf first.key vals = none) ∧
      (∀ merged, mf first.key vals = some merged →
        (Merger.next mf m).2 = .ok (some (first.key, merged)))) := by
  refine ⟨Merger.next_of_pop_none mf m, ?_⟩
  intro first h hp
  simp only
  rw [Merger.next_of_pop_some mf m first h hp]
  cases hm : mf first.key (first.val :: (popSame first.key (h.length + 1) h []).1.map MSrc.val) with
  | none => simp
  | some merged => simp

/-- A merge function that never fails: neither a step nor a complete run reports an error. -/
theorem C12_merge_no_fault (mf : MergeFn) (hmf : ∀ k vs, (mf k vs).isSome) :
    (∀ m, (Merger.next mf m).2 ≠ .mergeErr) ∧ (∀ sources, (Merger.run mf sources).1 ≠ none) :=
  ⟨Merger.next_ne_mergeErr mf hmf, Merger.run_ne_none mf hmf⟩

/-! ### The sorter -/

open Sorter in
/-- `write_chunk` fails only with `.merge`, and only because a merge call failed. -/
theorem writeChunk_err (mf : MergeFn) (s : Sorter) (e : SErr)
    (h : writeChunk mf s = .error e) :
    e = .merge ∧ mergeGroups mf (sortStable s.entries.items) none [] [] = none := by
  unfold writeChunk writeChunkWith at h
  cases hm : mergeGroups mf (sortStable s.entries.items) none [] [] with
  | none => rw [hm] at h; simp only at h; cases h; exact ⟨rfl, rfl⟩
  | some x => rw [hm] at h; obtain ⟨a, b⟩ := x; simp only at h; cases h

open Sorter in
/-- `merge_chunks` fails only with `.merge`, and only because the merger did. -/
theorem mergeChunks_err (mf : MergeFn) (s : Sorter) (e : SErr)
    (h : mergeChunks mf s = .error e) : e = .merge ∧ (Merger.run mf s.chunks).1 = none := by
  unfold mergeChunks at h
  rcases hm : Merger.run mf s.chunks with ⟨o, m⟩
  rw [hm] at h
  cases o with
  | none => simp only at h; cases h; exact ⟨rfl, rfl⟩
  | some x => simp only at h; cases h

open Sorter in
/-- `Sorter::insert`: every error value is accounted for.  A `.trap t` is the trap `t` of one of
    the `Entries` operations of this very call, passed on unchanged; a `.merge` is a failed merge
    call of this very call's spill or chunk merge.  Nothing else can be reported, nothing is
    converted into another error, and no error is swallowed (next theorem). -/
theorem C12_sorter_insert_err (mf : MergeFn) (s : Sorter) (k v : Bytes) (e : SErr)
    (h : Sorter.insert mf s k v = .error e) :
    (∃ t, e = .trap t ∧
      (s.entries.fits k v = .error t ∨ s.entries.insert k v 64 = .error t ∨
       ∃ s', writeChunk mf s = .ok s' ∧ s'.entries.insert k v 64 = .error t)) ∨
    (e = .merge ∧
      (mergeGroups mf (sortStable s.entries.items) none [] [] = none ∨
       ∃ s', writeChunk mf s = .ok s' ∧ (Merger.run mf s'.chunks).1 = none)) := by
  unfold Sorter.insert at h
  cases hf : s.entries.fits k v with
  | error t => rw [hf] at h; simp only at h; cases h; exact .inl ⟨t, rfl, .inl rfl⟩
  | ok fit =>
    rw [hf] at h
    simp only at h
    split at h
    · cases hi : s.entries.insert k v 64 with
      | error t => rw [hi] at h; simp only at h; cases h; exact .inl ⟨t, rfl, .inr (.inl rfl)⟩
      | ok x => rw [hi] at h; obtain ⟨a, b⟩ := x; simp only at h; cases h
    · cases hw : writeChunk mf s with
      | error e' =>
        rw [hw] at h; simp only at h; cases h
        obtain ⟨e1, e2⟩ := writeChunk_err mf s _ hw
        exact .inr ⟨e1, .inl e2⟩
      | ok s' =>
        rw [hw] at h
        simp only at h
        cases hi : s'.entries.insert k v 64 with
        | error t =>
          rw [hi] at h; simp only at h; cases h
          exact .inl ⟨t, rfl, .inr (.inr ⟨s', rfl, hi⟩)⟩
        | ok x =>
          rw [hi] at h
          obtain ⟨a, b⟩ := x
          simp only at h
          split at h
          · obtain ⟨e1, e2⟩ := mergeChunks_err mf _ _ h
            exact .inr ⟨e1, .inr ⟨s', rfl, e2⟩⟩
          · cases h

open Sorter in
/-- No conversion, no swallowing: a trap of the first `Entries` operation of `Sorter::insert` is
    reported as that very trap, and a failing spill as `.merge`. -/
theorem C12_sorter_no_trap_conversion (mf : MergeFn) (s : Sorter) (k v : Bytes) :
    (∀ t, s.entries.fits k v = .error t → Sorter.insert mf s k v = .error (.trap t)) ∧
    (∀ fit, s.entries.fits k v = .ok fit →
      (fit || (!decide (s.entries.bufLen ≥ s.cfg.budget) && s.cfg.allowRealloc)) = false →
      mergeGroups mf (sortStable s.entries.items) none [] [] = none →
      Sorter.insert mf s k v = .error .merge) ∧
    (∀ e, Sorter.insert mf s k v = .error e → (∃ t, e = .trap t) ∨ e = .merge) := by
  refine ⟨?_, ?_, ?_⟩
  · intro t hf
    unfold Sorter.insert; rw [hf]
  · intro fit hf hcond hm
    unfold Sorter.insert
    rw [hf]
    simp only [hcond]
    unfold writeChunk writeChunkWith
    rw [hm]
    simp
  · intro e _
    cases e with
    | trap t => exact .inl ⟨t, rfl⟩
    | merge => exact .inr rfl

open Sorter in
/-- `finish` (`into_stream_merger_iter` drained): every error value is accounted for. -/
theorem C12_sorter_finish_err (mf : MergeFn) (s : Sorter) (e : SErr)
    (h : Sorter.finish mf s = .error e) :
    (∃ t s', e = .trap t ∧ writeChunk mf s = .ok s' ∧ s'.entries.drop = .error t) ∨
    (e = .merge ∧
      (mergeGroups mf (sortStable s.entries.items) none [] [] = none ∨
       ∃ s', finishChunks mf s = .ok s' ∧ (Merger.run mf s'.chunks).1 = none)) := by
  unfold Sorter.finish at h
  cases hfc : finishChunks mf s with
  | error e' =>
    rw [hfc] at h; simp only at h; cases h
    unfold finishChunks at hfc
    cases hw : writeChunk mf s with
    | error e'' =>
      rw [hw] at hfc; simp only at hfc; cases hfc
      obtain ⟨e1, e2⟩ := writeChunk_err mf s _ hw
      exact .inr ⟨e1, .inl e2⟩
    | ok s' =>
      rw [hw] at hfc
      simp only at hfc
      cases hd : s'.entries.drop with
      | error t => rw [hd] at hfc; simp only at hfc; cases hfc; exact .inl ⟨t, s', rfl, rfl, hd⟩
      | ok x => rw [hd] at hfc; obtain ⟨a, b⟩ := x; simp only at hfc; cases hfc
  | ok s' =>
    rw [hfc] at h
    simp only at h
    rcases hm : Merger.run mf s'.chunks with ⟨o, m⟩
    rw [hm] at h
    cases o with
    | none => simp only at h; cases h; exact .inr ⟨rfl, .inr ⟨s', rfl, by rw [hm]⟩⟩
    | some out => simp only at h; cases h

open Sorter in
/-- When the merge function never fails, the sorter never reports `.merge`: the only possible
    errors are the `Entries` traps (shown unreachable in C08/C17). -/
theorem C12_sorter_no_fault (mf : MergeFn) (hmf : ∀ k vs, (mf k vs).isSome) (s : Sorter) :
    (∀ k v, Sorter.insert mf s k v ≠ .error .merge) ∧ Sorter.finish mf s ≠ .error .merge := by
  refine ⟨?_, ?_⟩
  · intro k v h
    rcases C12_sorter_insert_err mf s k v _ h with ⟨t, e, _⟩ | ⟨_, h1 | ⟨s', _, h2⟩⟩
    · cases e
    · exact mergeGroups_ne_none mf hmf _ _ _ _ h1
    · exact Merger.run_ne_none mf hmf _ h2
  · intro h
    rcases C12_sorter_finish_err mf s _ h with ⟨t, s', e, _⟩ | ⟨_, h1 | ⟨s', _, h2⟩⟩
    · cases e
    · exact mergeGroups_ne_none mf hmf _ _ _ _ h1
    · exact Merger.run_ne_none mf hmf _ h2

/-! ### Concrete schedules -/

/-- a fault in the middle of the second buffer: the first buffer is complete, one byte of the
    second went through, the third is not started; the tag is reported; the rest of the
    schedule is untouched -/
example : writeMany [[1, 2], [3, 4, 5], [6]] {}
      [.accept 1, .interrupted, .accept 1, .accept 1, .fail 7, .accept 9, .fail 8] =
    ({ data := [1, 2, 3], count := 3 }, [.accept 9, .fail 8], some 7) := by decide
/-- a fault that is never reached is not reported -/
example : writeMany [[1, 2]] {} [.accept 2, .fail 7] =
    ({ data := [1, 2], count := 2 }, [.fail 7], none) := by decide
/-- the hypotheses of clause (d) hold for the first example -/
example : WFaultFree [.accept 1, .interrupted, .accept 1, .accept 1] := by
  intro r hr t; simp at hr; rcases hr with rfl | rfl | rfl | rfl <;> simp
/-- a read fault in the body: no body is returned, tag 5 -/
example : loadBodyIO [0, 0, 0, 0, 0, 0, 0, 3, 7, 8, 9] 0
      [.serve 4, .interrupted, .serve 4, .serve 1, .fail 5, .serve 9] =
    (none, [.serve 9], some 5) := by
  simp [loadBodyIO, readExact, readToEndTake, beVal, leVal]
/-- a short header: UnexpectedEof -/
example : (loadBodyIO [0, 0, 0] 0 [.serve 1]).2.2 = some 0 := by
  simp [loadBodyIO, readExact]
/-- a merge function failing on key `[3]` -/
example : (Merger.next (fun k vs => if k = [3] then none else some vs.flatten)
    (Merger.start [[([3], [1])], [([3], [2])]])).2 = .mergeErr := by decide
/-- hypotheses of `C12_cursor_load_fault` / `C12_merge_no_fault` / `C12_sorter_no_fault` hold for
    concrete components -/
example : ∀ off, ((fun off : Nat => some (BlockCursor.ofBlock { payload := [], offsets := [off] })) off).isSome :=
  fun _ => rfl
example : ∀ k vs, ((fun (_ : Bytes) (vs : List Bytes) => some vs.flatten : MergeFn) k vs).isSome :=
  fun _ _ => rfl
/-- hypothesis of `C12_cursor_ok_stable`: a loader failing at offset 5 is below the total one -/
example : ∀ off b, (fun off : Nat => if off = 5 then none else some off) off = some b →
    (fun off : Nat => some off) off = some b := by
  intro off b h
  by_cases h5 : off = 5
  · simp [h5] at h
  · simpa [h5] using h
/-- a fresh cursor whose root block cannot be loaded: `first` fails at once -/
example : (RC.first byteOps (fun _ => none)
    { base := 0, levels := 0, inner := none, cur := none }).2 = .err := by
  simp [RC.first, RC.iterIndex, RC.initialIndex]

end Grenad.Props.C12

/-! ### The writer under an arbitrary sink schedule (`Grenad.Model.WriterIO`) -/

namespace Grenad.Props.C12

open Grenad Grenad.IOM Grenad.Wave3

section
variable {cd : Codec} {cfg : WCfg} {es : List Entry} {file : Bytes} {log : List Emitted}
  {m : Meta.Meta}

/-- **C12, the writer's sink.**  `W.runIO cd log m sch` is the complete writer run (all its
    `write_all` calls: two per block, five for the trailer) against a sink answering from an
    *arbitrary* schedule `sch`; `file` is what the pure writer returns.
    (a) No fault in the schedule: `Ok`.
    (b) An `Err(t)` is exactly the first `.fail` of the schedule, which the run consumed; the sink
        then holds a *strict* prefix of `file` (never the complete file, never other bytes), and
        `CountWrite::count` is the number of bytes it holds.
    (c) `Ok` means the sink holds exactly `file` (never success after a failure).
    (d) If the run reaches the first fault of the schedule, it reports that fault's tag. -/
theorem C12_writer_fault (H : WriterHyps cd cfg es) (hrun : W.run cd cfg es = .ok (file, log))
    (hfile : file.length < 2 ^ 64) (hcount : es.length < 2 ^ 64) (hid : cd.id ≤ 5)
    (hm : Meta.parse file = .ok m) (sch : List WResp) :
    let r := W.runIO cd log m sch
    (WFaultFree sch → r.2.2 = none) ∧
    (∀ t, r.2.2 = some t →
      ∃ used rest, WFaultFree used ∧ sch = used ++ .fail t :: r.2.1 ∧
        rest ≠ [] ∧ file = r.1.data ++ rest ∧ r.1.count = r.1.data.length) ∧
    (r.2.2 = none → r.1.data = file ∧ r.1.count = file.length) ∧
    (∀ pre t post, WFaultFree pre → sch = pre ++ .fail t :: post →
      r.2.1.length ≤ post.length → r.2.2 = some t ∧ r.2.1 = post) := by
  have hfl := writes_flatten_run H hrun hfile hcount hid hm
  obtain ⟨f1, f2⟩ := runIO_fault cd log m sch
  rw [hfl] at f1 f2
  refine ⟨fun hff => (runIO_ff cd log m hff).1, f1, f2, ?_⟩
  exact (C12_write_fault (W.writes cd log m) {} sch).2.2.2

/-- Which call was interrupted: an `Err(t)` stops the run inside call number `j` of
    `W.writes cd log m`; the calls before it went through completely, a strict prefix of call
    `j` was written, nothing after it. -/
theorem C12_writer_fault_call (cd : Codec) (log : List Emitted) (m : Meta.Meta)
    (sch : List WResp) (t : Nat) (h : (W.runIO cd log m sch).2.2 = some t) :
    ∃ j b k, (W.writes cd log m)[j]? = some b ∧ k < b.length ∧
      (W.runIO cd log m sch).1.data = ((W.writes cd log m).take j).flatten ++ b.take k := by
  obtain ⟨used, j, b, k, -, -, hj, hk, hd, -⟩ :=
    (C12_write_fault (W.writes cd log m) {} sch).2.1 t h
  refine ⟨j, b, k, hj, hk, ?_⟩
  have hd' : (W.runIO cd log m sch).1.data =
      ([] : Bytes) ++ ((W.writes cd log m).take j).flatten ++ b.take k := hd
  simpa using hd'

end

/-- the hypotheses hold for the instance `wx…` of `Grenad.Proofs.Wave3IO`; a fault while the
    second block's body is being written (after 24 + 8 + 2 bytes): the tag is reported, the sink
    holds the first 34 bytes of the file -/
example : ∃ rest, rest ≠ [] ∧ wxFile =
    (W.runIO Codec.none wxLog wxMeta (List.replicate 34 (.accept 1) ++ [.fail 9, .accept 5])).1.data ++ rest := by
  have h := (C12_writer_fault wxHyps wxRun wxFile_lt (by decide) (by decide) wxParse
    (List.replicate 34 (.accept 1) ++ [.fail 9, .accept 5])).2.1 9
    (by set_option maxRecDepth 100000 in decide)
  obtain ⟨_, rest, -, -, h1, h2, -⟩ := h
  exact ⟨rest, h1, h2⟩

example : W.runIO Codec.none wxLog wxMeta (List.replicate 34 (.accept 1) ++ [.fail 9, .accept 5]) =
    ({ data := wxFile.take 34, count := 34 }, [.accept 5], some 9) := by
  set_option maxRecDepth 100000 in decide

end Grenad.Props.C12

section Audit
open Grenad.Props.C12
#print axioms C12_writer_fault
#print axioms C12_writer_fault_call
end Audit
