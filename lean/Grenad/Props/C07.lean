/-
  C07 — The sorter's content does not depend on when it spills or merges chunks.

  Whatever the thresholds, the chunk list always is the grouped-and-merged image of consecutive
  parts of the insert sequence; `MergeLaw` lets nested merges be flattened, so the final output is
  `Spec.group kvs` merged key by key, values in insertion order.  Traps of the `Entries`
  bookkeeping are a separate matter (C08/C17): every statement is of the form "the run trapped, or
  it returned a result with the stated content — it never reports a merge error" (`OkOr`), and the
  `_ok` corollaries take "the run returned `.ok`" as a hypothesis.
-/
import Grenad.Proofs.SorterSteps

namespace Grenad.Props.C07

open Grenad Grenad.Sorter

/-- `Sorter.insert` over `kvs` in order, then `Sorter.finish`. -/
def runAll (mf : MergeFn) : Sorter → List Entry → Except SErr (List Entry × Sorter)
  | s, [] => Sorter.finish mf s
  | s, (k, v) :: r =>
    match Sorter.insert mf s k v with
    | .error e => .error e
    | .ok s' => runAll mf s' r

/-- The model's sorter is the instance of `runWith` (explicit spill order) with the stable sort. -/
theorem runAll_eq (mf : MergeFn) (kvs : List Entry) : ∀ s, runAll mf s kvs = runWith mf stableSrt s kvs := by
  induction kvs with
  | nil => intro s; rfl
  | cons e r ih =>
    intro s
    obtain ⟨k, v⟩ := e
    simp only [runAll, runWith, insertWith_stable]
    cases Sorter.insert mf s k v with
    | error e => rfl
    | ok s' => exact ih s'

/-- The values inserted for key `k`, in insertion order (`= Grenad.valsOf k kvs`). -/
def insertedFor (k : Bytes) (kvs : List Entry) : List Bytes :=
  (kvs.filter (fun e => decide (e.1 = k))).map (·.2)

theorem init_content (mf' : Bytes → List Bytes → Bytes) (ρ : List Bytes → List Bytes → Prop)
    (hρ : ValRel ρ) : PContent mf' ρ [] [] [] :=
  ⟨[], rfl, fun _ => hρ.refl _⟩

/-- Final content under an invariant `PContent`: `G` of parts key-wise related to `kvs`. -/
theorem final_content (mf' : Bytes → List Bytes → Bytes) (law : MergeLaw mf')
    {ρ : List Bytes → List Bytes → Prop} {cs : List (List Entry)} {kvs : List Entry}
    (h : PContent mf' ρ cs [] kvs) :
    ∃ l, Spec.mergeSpec mf' cs = G mf' l ∧ KW ρ l kvs := by
  obtain ⟨parts, rfl, hkw⟩ := h
  exact ⟨parts.flatten, by rw [mergeSpec_eq_G, G_flatten_law mf' law], by simpa using hkw⟩

/-! ### C07_stable -/

/-- The same for ANY stable spill order (each key's values keep their insertion order in what the
    spill writes), chosen freely at each spill. -/
theorem C07_stable_any (mf' : Bytes → List Bytes → Bytes) (law : MergeLaw mf')
    (srt : Sorter → List Entry) (ho : SortOracle srt)
    (hst : ∀ s k, insertedFor k (srt s) = insertedFor k s.entries.items)
    (cfg : SCfg) (s0 : Sorter) (hnew : Sorter.new cfg = .ok s0) (kvs : List Entry) :
    OkOr (runWith (tot mf') srt s0 kvs)
      (fun r => r.1 = (Spec.group kvs).map (fun (k, vs) => (k, mf' k vs))) := by
  obtain ⟨hc, hi⟩ := new_state hnew
  have I := pcontent_inv mf' law valRel_eq srt hst
  have h := runWith_inv I ho kvs s0 []
    (by rw [hc, hi]; exact init_content mf' _ valRel_eq)
  refine h.imp ?_
  rintro r ⟨cs, hP, hout⟩
  obtain ⟨l, hl, hkw⟩ := final_content mf' law (by simpa using hP)
  show r.1 = G mf' kvs
  rw [hout, hl]
  exact G_congr mf' hkw

/-- With the stable sort and a lawful merge function, inserting `kvs` in any manner of spilling
    and chunk merging and finishing yields `Spec.group kvs` merged key by key — values merged in
    insertion order.  (`OkOr r Q`: `r` is a trap, or `.ok a` with `Q a`; never a merge error.) -/
theorem C07_stable (mf' : Bytes → List Bytes → Bytes) (law : MergeLaw mf') (cfg : SCfg)
    (s0 : Sorter) (hnew : Sorter.new cfg = .ok s0) (kvs : List Entry) :
    OkOr (runAll (tot mf') s0 kvs)
      (fun r => r.1 = (Spec.group kvs).map (fun (k, vs) => (k, mf' k vs))) := by
  rw [runAll_eq]
  exact C07_stable_any mf' law stableSrt stableSrt_oracle (fun s k => valsOf_sortStable k _)
    cfg s0 hnew kvs

/-- Hypothesis form: if all inserts and `finish` return `.ok`, the output is the grouped merge. -/
theorem C07_stable_ok (mf' : Bytes → List Bytes → Bytes) (law : MergeLaw mf') (cfg : SCfg)
    (s0 : Sorter) (hnew : Sorter.new cfg = .ok s0) (kvs : List Entry) (out : List Entry)
    (s' : Sorter) (hrun : runAll (tot mf') s0 kvs = .ok (out, s')) :
    out = (Spec.group kvs).map (fun (k, vs) => (k, mf' k vs)) := by
  have := C07_stable mf' law cfg s0 hnew kvs
  rw [hrun] at this
  exact this

/-- The sorter never reports a merge error when the merge function never fails. -/
theorem C07_no_merge_error (mf' : Bytes → List Bytes → Bytes) (cfg : SCfg)
    (s0 : Sorter) (hnew : Sorter.new cfg = .ok s0) (kvs : List Entry) :
    runAll (tot mf') s0 kvs ≠ .error .merge := by
  rw [runAll_eq]
  obtain ⟨hc, hi⟩ := new_state hnew
  have h := runWith_inv (pkeys_inv mf' stableSrt stableSrt_oracle) stableSrt_oracle kvs s0 []
    (by rw [hc, hi]; exact pkeys_init)
  intro e
  rw [e] at h
  exact h

/-! ### C07_keys -/

/-- No law needed, any spill order: the output keys are strictly ascending and are exactly the
    distinct inserted keys. -/
theorem C07_keys_any (mf' : Bytes → List Bytes → Bytes) (srt : Sorter → List Entry)
    (ho : SortOracle srt) (cfg : SCfg) (s0 : Sorter) (hnew : Sorter.new cfg = .ok s0)
    (kvs : List Entry) :
    OkOr (runWith (tot mf') srt s0 kvs)
      (fun r => StrictAsc r.1 ∧ ∀ k, k ∈ r.1.map (·.1) ↔ k ∈ kvs.map (·.1)) := by
  obtain ⟨hc, hi⟩ := new_state hnew
  have h := runWith_inv (pkeys_inv mf' srt ho) ho kvs s0 []
    (by rw [hc, hi]; exact pkeys_init)
  refine h.imp ?_
  rintro r ⟨cs, hP, hout⟩
  show StrictAsc r.1 ∧ _
  rw [hout]
  refine ⟨by rw [mergeSpec_eq_G]; exact G_asc mf' _, fun k => ?_⟩
  rw [mergeSpec_keys']
  simpa using hP.2 k

/-- The model's sorter (stable sort). -/
theorem C07_keys (mf' : Bytes → List Bytes → Bytes) (cfg : SCfg) (s0 : Sorter)
    (hnew : Sorter.new cfg = .ok s0) (kvs : List Entry) :
    OkOr (runAll (tot mf') s0 kvs)
      (fun r => StrictAsc r.1 ∧ ∀ k, k ∈ r.1.map (·.1) ↔ k ∈ kvs.map (·.1)) := by
  rw [runAll_eq]
  exact C07_keys_any mf' stableSrt stableSrt_oracle cfg s0 hnew kvs

theorem C07_keys_ok (mf' : Bytes → List Bytes → Bytes) (cfg : SCfg) (s0 : Sorter)
    (hnew : Sorter.new cfg = .ok s0) (kvs : List Entry) (out : List Entry) (s' : Sorter)
    (hrun : runAll (tot mf') s0 kvs = .ok (out, s')) :
    StrictAsc out ∧ ∀ k, k ∈ out.map (·.1) ↔ k ∈ kvs.map (·.1) := by
  have := C07_keys mf' cfg s0 hnew kvs
  rw [hrun] at this
  exact this

/-! ### C07_any_order -/

/-- Each spill writes ANY key-sorted permutation of the pending entries (`srt` chooses from the
    whole sorter state — an unstable or parallel sort): the output keys are still the distinct
    inserted keys in ascending order, and each key's value is `mf' k π` for some permutation `π`
    of the values inserted for it. -/
theorem C07_any_order (mf' : Bytes → List Bytes → Bytes) (law : MergeLaw mf')
    (srt : Sorter → List Entry) (ho : SortOracle srt) (cfg : SCfg) (s0 : Sorter)
    (hnew : Sorter.new cfg = .ok s0) (kvs : List Entry) :
    OkOr (runWith (tot mf') srt s0 kvs)
      (fun r => StrictAsc r.1 ∧ (∀ k, k ∈ r.1.map (·.1) ↔ k ∈ kvs.map (·.1)) ∧
        ∀ k v, (k, v) ∈ r.1 → ∃ π, π.Perm (insertedFor k kvs) ∧ v = mf' k π) := by
  obtain ⟨hc, hi⟩ := new_state hnew
  have hkeys := C07_keys_any mf' srt ho cfg s0 hnew kvs
  have I := pcontent_inv mf' law valRel_perm srt
    (fun s k => ((ho s).1.filter _).map _)
  have h := runWith_inv I ho kvs s0 []
    (by rw [hc, hi]; exact init_content mf' _ valRel_perm)
  cases hr : runWith (tot mf') srt s0 kvs with
  | error e =>
    rw [hr] at h
    cases e with
    | trap t => exact trivial
    | merge => exact False.elim h
  | ok r =>
    rw [hr] at h hkeys
    obtain ⟨cs, hP, hout⟩ := h
    obtain ⟨l, hl, hkw⟩ := final_content mf' law (by simpa using hP)
    refine ⟨hkeys.1, hkeys.2, ?_⟩
    intro k v hm
    rw [hout, hl] at hm
    exact ⟨valsOf k l, hkw k, ((mem_G mf' l k v).mp hm).2⟩

/-! ### Concrete instances -/

/-- Concatenation of the values: a lawful merge function that is sensitive to value order. -/
def exConcat : Bytes → List Bytes → Bytes := fun _ vs => vs.flatten

theorem exConcat_law : MergeLaw exConcat := by
  have h : ∀ gs : List (List Bytes), (gs.map (fun vs => vs.flatten)).flatten = gs.flatten.flatten := by
    intro gs
    induction gs with
    | nil => rfl
    | cons g r ih => simp [ih]
  exact ⟨fun k v => by simp [exConcat], fun k gs _ => h gs⟩

/-- A tiny sorter: 64-byte buffer that may not grow, at most 2 chunks before they are merged. -/
def exCfg : SCfg :=
  { threshold := 64, minMemory := 64, initialSize := 64, allowRealloc := false, maxChunks := 2 }

def exS0 : Sorter :=
  { cfg := exCfg, entries := { bufLen := 64, entriesLen := 0, boundsCount := 0, items := [] },
    chunks := [], events := [.alloc 64], calls := [] }

theorem exNew : Sorter.new exCfg = .ok exS0 := rfl

/-- Seven inserts (18 bytes each with the bound): spills after every third, one chunk merge. -/
def exKvs : List Entry :=
  [([2], [20]), ([1], [10]), ([2], [21]), ([3], [30]), ([1], [11]), ([2], [22]), ([1], [12])]

/-- Evaluation of the model on this instance (not a proof; checked at build time): the run does
    not trap, spills three times, merges its two chunks once, and returns the grouped merge. -/
def exOutcome : Option (List Entry × Nat × Nat) :=
  match runAll (tot exConcat) exS0 exKvs with
  | .ok (out, s) => some (out, s.events.count .create, s.events.count .dropChunk)
  | .error _ => none

#guard exOutcome = some ([([1], [10, 11, 12]), ([2], [20, 21, 22]), ([3], [30])], 4, 2)

example : OkOr (runAll (tot exConcat) exS0 exKvs)
    (fun r => r.1 = (Spec.group exKvs).map (fun (k, vs) => (k, exConcat k vs))) :=
  C07_stable exConcat exConcat_law exCfg exS0 exNew exKvs

example : (Spec.group exKvs).map (fun (k, vs) => (k, exConcat k vs)) =
    [([1], [10, 11, 12]), ([2], [20, 21, 22]), ([3], [30])] := by decide

example : OkOr (runAll (tot exConcat) exS0 exKvs)
    (fun r => StrictAsc r.1 ∧ ∀ k, k ∈ r.1.map (·.1) ↔ k ∈ exKvs.map (·.1)) :=
  C07_keys exConcat exCfg exS0 exNew exKvs

example : OkOr (runWith (tot exConcat) stableSrt exS0 exKvs)
    (fun r => StrictAsc r.1 ∧ (∀ k, k ∈ r.1.map (·.1) ↔ k ∈ exKvs.map (·.1)) ∧
      ∀ k v, (k, v) ∈ r.1 → ∃ π, π.Perm (insertedFor k exKvs) ∧ v = exConcat k π) :=
  C07_any_order exConcat exConcat_law stableSrt stableSrt_oracle exCfg exS0 exNew exKvs

end Grenad.Props.C07

section Axioms
open Grenad.Props.C07
#print axioms C07_stable_any
#print axioms C07_stable
#print axioms C07_stable_ok
#print axioms C07_no_merge_error
#print axioms C07_keys_any
#print axioms C07_keys
#print axioms C07_any_order
end Axioms
