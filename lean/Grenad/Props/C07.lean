/-
  C07 — The sorter's content does not depend on when it spills or merges chunks.

  Whatever the thresholds, the chunk list always is the grouped-and-merged image of consecutive
  parts of the insert sequence; `MergeLaw` lets nested merges be flattened, so the final output is
  `Spec.group kvs` merged key by key, values in insertion order.  Traps of the `Entries`
  bookkeeping are a separate matter (C08/C17): every statement is of the form "the run trapped, or
  it returned a result with the stated content — it never reports a merge error" (`OkOr`), and the
  `_ok` corollaries take "the run returned `.ok`" as a hypothesis.
-/
import Grenad.Proofs.SorterSteps
import Grenad.Proofs.Wave3Sorter

namespace Grenad.Props.C07

open Grenad Grenad.Sorter

/-- `Sorter.insert` over `kvs` in order, then `Sorter.finish`. -/
def runAll (mf : MergeFn) : Sorter → List Entry → Except SErr (List Entry × Sorter)
  | s, [] => Sorter.finish mf s
  | s, (k, v) :: r =>
    match Sorter.insert mf s k v with
    | .error e => .error e
    | .ok s' => runAll mf s' r

/-- The model's sorter is the instance of `runWith` (explicit spill order) with the stable sort. -/
theorem runAll_eq (mf : MergeFn) (kvs : List Entry) : ∀ s, runAll mf s kvs = runWith mf stableSrt s kvs := by
  induction kvs with
  | nil => intro s; rfl
  | cons e r ih =>
    intro s
    obtain ⟨k, v⟩ := e
    simp only [runAll, runWith, insertWith_stable]
    cases Sorter.insert mf s k v with
    | error e => rfl
    | ok s' => exact ih s'

/-- The values inserted for key `k`, in insertion order (`= Grenad.valsOf k kvs`). -/
def insertedFor (k : Bytes) (kvs : List Entry) : List Bytes :=
  (kvs.filter (fun e => decide (e.1 = k))).map (·.2)

theorem init_content (mf' : Bytes → List Bytes → Bytes) (ρ : List Bytes → List Bytes → Prop)
    (hρ : ValRel ρ) : PContent mf' ρ [] [] [] :=
  ⟨[], rfl, fun _ => hρ.refl _⟩

/-- Final content under an invariant `PContent`: `G` of parts key-wise related to `kvs`. -/
theorem final_content (mf' : Bytes → List Bytes → Bytes) (law : MergeLaw mf')
    {ρ : List Bytes → List Bytes → Prop} {cs : List (List Entry)} {kvs : List Entry}
    (h : PContent mf' ρ cs [] kvs) :
    ∃ l, Spec.mergeSpec mf' cs = G mf' l ∧ KW ρ l kvs := by
  obtain ⟨parts, rfl, hkw⟩ := h
  exact ⟨parts.flatten, by rw [mergeSpec_eq_G, G_flatten_law mf' law], by simpa using hkw⟩

/-! ### C07_stable -/

/-- The same for ANY stable spill order (each key's values keep their insertion order in what the
    spill writes), chosen freely at each spill. -/
theorem C07_stable_any (mf' : Bytes → List Bytes → Bytes) (law : MergeLaw mf')
    (srt : Sorter → List Entry) (ho : SortOracle srt)
    (hst : ∀ s k, insertedFor k (srt s) = insertedFor k s.entries.items)
    (cfg : SCfg) (s0 : Sorter) (hnew : Sorter.new cfg = .ok s0) (kvs : List Entry) :
    OkOr (runWith (tot mf') srt s0 kvs)
      (fun r => r.1 = (Spec.group kvs).map (fun (k, vs) => (k, mf' k vs))) := by
  obtain ⟨hc, hi⟩ := new_state hnew
  have I := pcontent_inv mf' law valRel_eq srt hst
  have h := runWith_inv I ho kvs s0 []
    (by rw [hc, hi]; exact init_content mf' _ valRel_eq)
  refine h.imp ?_
  rintro r ⟨cs, hP, hout⟩
  obtain ⟨l, hl, hkw⟩ := final_content mf' law (by simpa using hP)
  show r.1 = G mf' kvs
  rw [hout, hl]
  exact G_congr mf' hkw

/-- With the stable sort and a lawful merge function, inserting `kvs` in any manner of spilling
    and chunk merging and finishing yields `Spec.group kvs` merged key by key — values merged in
    insertion order.  (`OkOr r Q`: `r` is a trap, or `.ok a` with `Q a`; never a merge error.) -/
theorem C07_stable (mf' : Bytes → List Bytes → Bytes) (law : MergeLaw mf') (cfg : SCfg)
    (s0 : Sorter) (hnew : Sorter.new cfg = .ok s0) (kvs : List Entry) :
    OkOr (runAll (tot mf') s0 kvs)
      (fun r => r.1 = (Spec.group kvs).map (fun (k, vs) => (k, mf' k vs))) := by
  rw [runAll_eq]
  exact C07_stable_any mf' law stableSrt stableSrt_oracle (fun s k => valsOf_sortStable k _)
    cfg s0 hnew kvs

/-- Hypothesis form: if all inserts and `finish` return `.ok`, the output is the grouped merge. -/
theorem C07_stable_ok (mf' : Bytes → List Bytes → Bytes) (law : MergeLaw mf') (cfg : SCfg)
    (s0 : Sorter) (hnew : Sorter.new cfg = .ok s0) (kvs : List Entry) (out : List Entry)
    (s' : Sorter) (hrun : runAll (tot mf') s0 kvs = .ok (out, s')) :
    out = (Spec.group kvs).map (fun (k, vs) => (k, mf' k vs)) := by
  have := C07_stable mf' law cfg s0 hnew kvs
  rw [hrun] at this
  exact this

/-- The sorter never reports a merge error when the merge function never fails. -/
theorem C07_no_merge_error (mf' : Bytes → List Bytes → Bytes) (cfg : SCfg)
    (s0 : Sorter) (hnew : Sorter.new cfg = .ok s0) (kvs : List Entry) :
    runAll (tot mf') s0 kvs ≠ .error .merge := by
  rw [runAll_eq]
  obtain ⟨hc, hi⟩ := new_state hnew
  have h := runWith_inv (pkeys_inv mf' stableSrt stableSrt_oracle) stableSrt_oracle kvs s0 []
    (by rw [hc, hi]; exact pkeys_init)
  intro e
  rw [e] at h
  exact h

/-! ### C07_keys -/

/-- No law needed, any spill order: the output keys are strictly ascending and are exactly the
    distinct inserted keys. -/
theorem C07_keys_any (mf' : Bytes → List Bytes → Bytes) (srt : Sorter → List Entry)
    (ho : SortOracle srt) (cfg : SCfg) (s0 : Sorter) (hnew : Sorter.new cfg = .ok s0)
    (kvs : List Entry) :
    OkOr (runWith (tot mf') srt s0 kvs)
      (fun r => StrictAsc r.1 ∧ ∀ k, k ∈ r.1.map (·.1) ↔ k ∈ kvs.map (·.1)) := by
  obtain ⟨hc, hi⟩ := new_state hnew
  have h := runWith_inv (pkeys_inv mf' srt ho) ho kvs s0 []
    (by rw [hc, hi]; exact pkeys_init)
  refine h.imp ?_
  rintro r ⟨cs, hP, hout⟩
  show StrictAsc r.1 ∧ _
  rw [hout]
  refine ⟨by rw [mergeSpec_eq_G]; exact G_asc mf' _, fun k => ?_⟩
  rw [mergeSpec_keys']
  simpa using hP.2 k

/-- The model's sorter (stable sort). -/
theorem C07_keys (mf' : Bytes → List Bytes → Bytes) (cfg : SCfg) (s0 : Sorter)
    (hnew : Sorter.new cfg = .ok s0) (kvs : List Entry) :
    OkOr (runAll (tot mf') s0 kvs)
      (fun r => StrictAsc r.1 ∧ ∀ k, k ∈ r.1.map (·.1) ↔ k ∈ kvs.map (·.1)) := by
  rw [runAll_eq]
  exact C07_keys_any mf' stableSrt stableSrt_oracle cfg s0 hnew kvs

theorem C07_keys_ok (mf' : Bytes → List Bytes → Bytes) (cfg : SCfg) (s0 : Sorter)
    (hnew : Sorter.new cfg = .ok s0) (kvs : List Entry) (out : List Entry) (s' : Sorter)
    (hrun : runAll (tot mf') s0 kvs = .ok (out, s')) :
    StrictAsc out ∧ ∀ k, k ∈ out.map (·.1) ↔ k ∈ kvs.map (·.1) := by
  have := C07_keys mf' cfg s0 hnew kvs
  rw [hrun] at this
  exact this

/-! ### C07_any_order -/

/-- Each spill writes ANY key-sorted permutation of the pending entries (`srt` chooses from the
    whole sorter state — an unstable or parallel sort): the output keys are still the distinct
    inserted keys in ascending order, and each key's value is `mf' k π` for some permutation `π`
    of the values inserted for it. -/
theorem C07_any_order (mf' : Bytes → List Bytes → Bytes) (law : MergeLaw mf')
    (srt : Sorter → List Entry) (ho : SortOracle srt) (cfg : SCfg) (s0 : Sorter)
    (hnew : Sorter.new cfg = .ok s0) (kvs : List Entry) :
    OkOr (runWith (tot mf') srt s0 kvs)
      (fun r => StrictAsc r.1 ∧ (∀ k, k ∈ r.1.map (·.1) ↔ k ∈ kvs.map (·.1)) ∧
        ∀ k v, (k, v) ∈ r.1 → ∃ π, π.Perm (insertedFor k kvs) ∧ v = mf' k π) := by
  obtain ⟨hc, hi⟩ := new_state hnew
  have hkeys := C07_keys_any mf' srt ho cfg s0 hnew kvs
  have I := pcontent_inv mf' law valRel_perm srt
    (fun s k => ((ho s).1.filter _).map _)
  have h := runWith_inv I ho kvs s0 []
    (by rw [hc, hi]; exact init_content mf' _ valRel_perm)
  cases hr : runWith (tot mf') srt s0 kvs with
  | error e =>
    rw [hr] at h
    cases e with
    | trap t => exact trivial
    | merge => exact False.elim h
  | ok r =>
    rw [hr] at h hkeys
    obtain ⟨cs, hP, hout⟩ := h
    obtain ⟨l, hl, hkw⟩ := final_content mf' law (by simpa using hP)
    refine ⟨hkeys.1, hkeys.2, ?_⟩
    intro k v hm
    rw [hout, hl] at hm
    exact ⟨valsOf k l, hkw k, ((mem_G mf' l k v).mp hm).2⟩

/-! ### Concrete instances -/

/-- Concatenation of the values: a lawful merge function that is sensitive to value order. -/
def exConcat : Bytes → List Bytes → Bytes := fun _ vs => vs.flatten

theorem exConcat_law : MergeLaw exConcat := by
  have h : ∀ gs : List (List Bytes), (gs.map (fun vs => vs.flatten)).flatten = gs.flatten.flatten := by
    intro gs
    induction gs with
    | nil => rfl
    | cons g r ih => simp [ih]
  exact ⟨fun k v => by simp [exConcat], fun k gs _ => h gs⟩

/-- A tiny sorter: 64-byte buffer that may not grow, at most 2 chunks before they are merged. -/
def exCfg : SCfg :=
  { threshold := 64, minMemory := 64, initialSize := 64, allowRealloc := false, maxChunks := 2 }

def exS0 : Sorter :=
  { cfg := exCfg, entries := { bufLen := 64, entriesLen := 0, boundsCount := 0, items := [] },
    chunks := [], events := [.alloc 64], calls := [] }

theorem exNew : Sorter.new exCfg = .ok exS0 := rfl

/-- Seven inserts (18 bytes each with the bound): spills after every third, one chunk merge. -/
def exKvs : List Entry :=
  [([2], [20]), ([1], [10]), ([2], [21]), ([3], [30]), ([1], [11]), ([2], [22]), ([1], [12])]

/-- Evaluation of the model on this instance (not a proof; checked at build time): the run does
    not trap, spills three times, merges its two chunks once, and returns the grouped merge. -/
def exOutcome : Option (List Entry × Nat × Nat) :=
  match runAll (tot exConcat) exS0 exKvs with
  | .ok (out, s) => some (out, s.events.count .create, s.events.count .dropChunk)
  | .error _ => none

#guard exOutcome = some ([([1], [10, 11, 12]), ([2], [20, 21, 22]), ([3], [30])], 4, 2)

example : OkOr (runAll (tot exConcat) exS0 exKvs)
    (fun r => r.1 = (Spec.group exKvs).map (fun (k, vs) => (k, exConcat k vs))) :=
  C07_stable exConcat exConcat_law exCfg exS0 exNew exKvs

example : (Spec.group exKvs).map (fun (k, vs) => (k, exConcat k vs)) =
    [([1], [10, 11, 12]), ([2], [20, 21, 22]), ([3], [30])] := by decide

example : OkOr (runAll (tot exConcat) exS0 exKvs)
    (fun r => StrictAsc r.1 ∧ ∀ k, k ∈ r.1.map (·.1) ↔ k ∈ exKvs.map (·.1)) :=
  C07_keys exConcat exCfg exS0 exNew exKvs

example : OkOr (runWith (tot exConcat) stableSrt exS0 exKvs)
    (fun r => StrictAsc r.1 ∧ (∀ k, k ∈ r.1.map (·.1) ↔ k ∈ exKvs.map (·.1)) ∧
      ∀ k v, (k, v) ∈ r.1 → ∃ π, π.Perm (insertedFor k exKvs) ∧ v = exConcat k π) :=
  C07_any_order exConcat exConcat_law stableSrt stableSrt_oracle exCfg exS0 exNew exKvs

end Grenad.Props.C07

section Axioms
open Grenad.Props.C07
#print axioms C07_stable_any
#print axioms C07_stable
#print axioms C07_stable_ok
#print axioms C07_no_merge_error
#print axioms C07_keys_any
#print axioms C07_keys
#print axioms C07_any_order
end Axioms

/-!
  ## Assembly (wave 3): exits, chunk files, configuration independence, totality

  `Wave3.Inserted mf cfg kvs s`  : `s` is reached by `Sorter.new cfg` and the inserts of `kvs`;
  `Wave3.Handed mf cfg kvs s'`   : `s'` is `finishChunks` of such a state — `s'.chunks` are the
                                   chunk cursors handed out;
  `Wave3.Admissible cd wcfg`     : the configuration hypotheses of `C01_roundtrip`;
  `Wave3.SizesOk es`             : its size hypotheses on the input (lengths `< 2^32`, fewer than
                                   `2^64` pairs);
  `Wave3.RoundTrips cd wcfg es`  : its conclusion (the run succeeds; under the two output-size
                                   side conditions the file opens, counts `es.length` and scans
                                   back to exactly `es`, forwards and backwards).
-/
namespace Grenad.Props.C07

open Grenad Grenad.Wave3

/-- `runAll` is "insert everything, then `finish`". -/
theorem runAll_eq_runAllI (mf : MergeFn) (kvs : List Entry) :
    ∀ s, runAll mf s kvs = runAllI mf s kvs := by
  induction kvs with
  | nil => intro s; rfl
  | cons e r ih =>
    intro s
    obtain ⟨k, v⟩ := e
    simp only [runAll, runAllI, Sorter.insertAll]
    cases Sorter.insert mf s k v with
    | error e => rfl
    | ok s' => exact ih s'

/-- **`runAll` (C07) and `Sorter.program` (C08/C17) are two formulations of the same run**:
    `runAll` from the state returned by `Sorter.new cfg` is `program mf cfg kvs true` (new, the
    inserts, `finishChunks`) followed by the merge of the chunks handed out. -/
theorem C07_runAll_eq_program (mf : MergeFn) (cfg : SCfg) (s0 : Sorter)
    (hnew : Sorter.new cfg = .ok s0) (kvs : List Entry) :
    runAll mf s0 kvs = match Sorter.program mf cfg kvs true with
      | .error e => .error e
      | .ok s' =>
        match Merger.run mf s'.chunks with
        | (none, _) => .error .merge
        | (some out, m) => .ok (out, { s' with calls := s'.calls ++ m.calls.reverse }) := by
  rw [runAll_eq_runAllI, runAllI_eq_program hnew]
  rfl

/-! ### C07_exits -/

/-- **(b) as an explicit theorem**: `finish` is `finishChunks` followed by the merge, with the
    same merge function, of the chunks handed out.  For ANY merge function and ANY state. -/
theorem C07_finish_is_merge_of_chunks (mf : MergeFn) (s s' : Sorter) (out : List Entry)
    (h : Sorter.finishChunks mf s = .ok s') :
    (Merger.run mf s'.chunks).1 = some out ↔ ∃ s'', Sorter.finish mf s = .ok (out, s'') := by
  rw [finish_eq, h]
  constructor
  · intro hr; exact ⟨_, finalMerge_ok_iff.mpr ⟨hr, rfl⟩⟩
  · rintro ⟨s'', h⟩; exact (finalMerge_ok_iff.mp h).1

/-- … and the returned state only differs by the recorded merge calls. -/
theorem C07_finish_state (mf : MergeFn) (s s' s'' : Sorter) (out : List Entry)
    (h : Sorter.finishChunks mf s = .ok s') (hf : Sorter.finish mf s = .ok (out, s'')) :
    s'' = { s' with calls := s'.calls ++ (Merger.run mf s'.chunks).2.calls.reverse } := by
  rw [finish_eq, h] at hf
  exact (finalMerge_ok_iff.mp hf).2

/-- `finish` reports a merge error exactly when merging the handed-out chunks does. -/
theorem C07_finish_err (mf : MergeFn) (s s' : Sorter) (h : Sorter.finishChunks mf s = .ok s') :
    (Merger.run mf s'.chunks).1 = none ↔ Sorter.finish mf s = .error .merge := by
  rw [finish_eq, h]
  unfold finalMerge
  cases hr : Merger.run mf s'.chunks with
  | mk o m => cases o <;> simp [hr]

/-- `finish` fails in `finishChunks` or in the final merge, never otherwise. -/
theorem C07_finish_err_chunks (mf : MergeFn) (s : Sorter) (e : Sorter.SErr)
    (h : Sorter.finishChunks mf s = .error e) : Sorter.finish mf s = .error e := by
  rw [finish_eq, h]

/-- **C07_exits.**  A run `runAll (tot mf') s0 kvs = .ok (out, sfin)` from a fresh sorter.  The
    same content `out` is obtained
    (a) by streaming: `out` is the output of `Sorter.finish` on the state reached by the inserts;
    (b) by merging, with the same merge function, the chunk cursors handed out by
        `finishChunks` (`Handed`): `Merger.run` on them returns `out`, which is the grouped union
        `Spec.mergeSpec mf' s'.chunks` of the chunks;
    (c) by writing `out` into a writer of ANY admissible configuration and scanning the file:
        `out` is strictly ascending, so (`C01_roundtrip`) the writer accepts it and the file
        scans back to exactly `out`.
    No law on the merge function is needed. -/
theorem C07_exits (mf' : Bytes → List Bytes → Bytes) (cfg : SCfg) (s0 : Sorter)
    (hnew : Sorter.new cfg = .ok s0) (kvs : List Entry) (out : List Entry) (sfin : Sorter)
    (hrun : runAll (tot mf') s0 kvs = .ok (out, sfin)) :
    (∃ s, Inserted (tot mf') cfg kvs s ∧ Sorter.finish (tot mf') s = .ok (out, sfin)) ∧
    (∃ s', Handed (tot mf') cfg kvs s' ∧ (Merger.run (tot mf') s'.chunks).1 = some out ∧
      out = Spec.mergeSpec mf' s'.chunks ∧
      sfin = { s' with calls := s'.calls ++ (Merger.run (tot mf') s'.chunks).2.calls.reverse }) ∧
    StrictAsc out ∧
    (∀ cd wcfg, Admissible cd wcfg → SizesOk out → RoundTrips cd wcfg out) := by
  rw [runAll_eq_runAllI] at hrun
  unfold runAllI at hrun
  cases hi : Sorter.insertAll (tot mf') s0 kvs with
  | error e => rw [hi] at hrun; cases hrun
  | ok s =>
    rw [hi] at hrun
    simp only at hrun
    have hins : Inserted (tot mf') cfg kvs s := ⟨s0, hnew, hi⟩
    have hfin := hrun
    rw [finish_eq] at hrun
    cases hf : Sorter.finishChunks (tot mf') s with
    | error e => rw [hf] at hrun; cases hrun
    | ok s' =>
      rw [hf] at hrun
      simp only at hrun
      obtain ⟨hr, hs⟩ := finalMerge_ok_iff.mp hrun
      have hh : Handed (tot mf') cfg kvs s' := ⟨s, hins, hf⟩
      have hasc : AllAsc s'.chunks :=
        (handed_inv (pkeys_inv mf' _ stableSrt_oracle) pkeys_init hh).1
      have hout : out = Spec.mergeSpec mf' s'.chunks := by
        have := run_total mf' s'.chunks hasc
        rw [hr] at this
        exact Option.some.inj this
      have hoasc : StrictAsc out := by rw [hout, mergeSpec_eq_G]; exact G_asc mf' _
      exact ⟨⟨s, hins, hfin⟩, ⟨s', hh, hr, hout, hs⟩, hoasc,
        fun cd wcfg A hsz => roundTrips A hoasc hsz⟩

/-- The size hypotheses on `out` follow from those on what was inserted and on the merged
    values: keys shorter than `2^32`, fewer than `2^64` inserts, merged values shorter than
    `2^32`. -/
theorem C07_out_sizes (mf' : Bytes → List Bytes → Bytes) (cfg : SCfg) (s0 : Sorter)
    (hnew : Sorter.new cfg = .ok s0) (kvs : List Entry) (out : List Entry) (sfin : Sorter)
    (hrun : runAll (tot mf') s0 kvs = .ok (out, sfin))
    (hk : ∀ kv ∈ kvs, kv.1.length < 2 ^ 32) (hv : ∀ e ∈ out, e.2.length < 2 ^ 32)
    (hn : kvs.length < 2 ^ 64) : SizesOk out := by
  obtain ⟨h1, h2⟩ := C07_keys_ok mf' cfg s0 hnew kvs out sfin hrun
  exact sizes_of_keys h1 (fun k hk' => (h2 k).mp hk') hk hv hn

/-! ### C07_chunk_files -/

/-- Every chunk of a reachable sorter state (`Reach`, as in C08/C17) is strictly ascending —
    for ANY merge function, failing or not (a run that got that far made only successful merge
    calls, so it is also a run of the totalised merge function). -/
theorem C07_chunks_asc (mf : MergeFn) {cfg : SCfg}
    {P : Bytes → Bytes → Prop} {s : Sorter} {sp mg : Nat}
    (r : Sorter.Reach mf cfg P s sp mg) : ∀ c ∈ s.chunks, StrictAsc c := by
  obtain ⟨kvs, h, -⟩ := reach_inserted r
  exact fun c hc => (inserted_chunk_any h hc).1

/-- … because it is the grouped-and-merged image of some sequence of pairs, with inserted keys
    only. -/
theorem C07_chunk_shape (mf' : Bytes → List Bytes → Bytes) {cfg : SCfg} {kvs : List Entry}
    {s : Sorter} (h : Inserted (tot mf') cfg kvs s) :
    ∀ c ∈ s.chunks, StrictAsc c ∧
      (∃ S, c = (Spec.group S).map (fun (k, vs) => (k, mf' k vs))) ∧
      ∀ k, k ∈ c.map (·.1) → k ∈ kvs.map (·.1) :=
  fun _ hc => inserted_chunk h hc

/-- **C07_chunk_files.**  Each chunk cursor handed out by `finishChunks` holds a strictly
    ascending list — the grouped-and-merged image of some of the inserted pairs — and therefore
    round-trips through a chunk file of ANY admissible chunk configuration (codec, block size,
    index levels, interval), which is what justifies modelling a chunk as the list it holds.
    Sizes: inserted keys shorter than `2^32`, fewer than `2^64` inserts, and the merged values
    held by the chunk shorter than `2^32`. -/
theorem C07_chunk_files (mf' : Bytes → List Bytes → Bytes) (cfg : SCfg) (kvs : List Entry)
    (s' : Sorter) (h : Handed (tot mf') cfg kvs s')
    (hk : ∀ kv ∈ kvs, kv.1.length < 2 ^ 32) (hn : kvs.length < 2 ^ 64) :
    ∀ c ∈ s'.chunks, StrictAsc c ∧
      (∃ S, c = (Spec.group S).map (fun (k, vs) => (k, mf' k vs))) ∧
      ((∀ e ∈ c, e.2.length < 2 ^ 32) →
        ∀ cd wcfg, Admissible cd wcfg → RoundTrips cd wcfg c) := by
  intro c hc
  have hf := handed_chunk h hc
  exact ⟨hf.1, hf.2.1, fun hv cd wcfg A => roundTrips A hf.1 (chunk_sizes hf hk hv hn)⟩

/-- The same for the chunks a sorter holds between two public calls (the files `merge_chunks`
    reads back). -/
theorem C07_chunk_files_live (mf' : Bytes → List Bytes → Bytes) (cfg : SCfg) (kvs : List Entry)
    (s : Sorter) (h : Inserted (tot mf') cfg kvs s)
    (hk : ∀ kv ∈ kvs, kv.1.length < 2 ^ 32) (hn : kvs.length < 2 ^ 64) :
    ∀ c ∈ s.chunks, StrictAsc c ∧
      ((∀ e ∈ c, e.2.length < 2 ^ 32) →
        ∀ cd wcfg, Admissible cd wcfg → RoundTrips cd wcfg c) := by
  intro c hc
  have hf := inserted_chunk h hc
  exact ⟨hf.1, fun hv cd wcfg A => roundTrips A hf.1 (chunk_sizes hf hk hv hn)⟩

/-- `C07_chunk_files` for an arbitrary (possibly failing) merge function: whenever
    `finishChunks` hands chunks out, each is strictly ascending, has inserted keys only, and
    round-trips through a chunk file of any admissible configuration. -/
theorem C07_chunk_files_any (mf : MergeFn) (cfg : SCfg) (kvs : List Entry)
    (s' : Sorter) (h : Handed mf cfg kvs s')
    (hk : ∀ kv ∈ kvs, kv.1.length < 2 ^ 32) (hn : kvs.length < 2 ^ 64) :
    ∀ c ∈ s'.chunks, StrictAsc c ∧ (∀ k, k ∈ c.map (·.1) → k ∈ kvs.map (·.1)) ∧
      ((∀ e ∈ c, e.2.length < 2 ^ 32) →
        ∀ cd wcfg, Admissible cd wcfg → RoundTrips cd wcfg c) := by
  intro c hc
  have hf := handed_chunk_any h hc
  exact ⟨hf.1, hf.2.2, fun hv cd wcfg A => roundTrips A hf.1 (chunk_sizes hf hk hv hn)⟩

/-- With a lawful merge function the handed-out chunks are the images of consecutive parts of
    the insert sequence (up to each key's value list, which is what `G` depends on). -/
theorem C07_chunks_are_parts (mf' : Bytes → List Bytes → Bytes) (law : MergeLaw mf') (cfg : SCfg)
    (kvs : List Entry) (s' : Sorter) (h : Handed (tot mf') cfg kvs s') :
    ∃ parts : List (List Entry),
      s'.chunks = parts.map (fun S => (Spec.group S).map (fun (k, vs) => (k, mf' k vs))) ∧
      ∀ k, insertedFor k parts.flatten = insertedFor k kvs := by
  obtain ⟨parts, h1, h2⟩ :=
    handed_inv (pcontent_inv mf' law valRel_eq stableSrt (fun s k => valsOf_sortStable k _))
      (init_content mf' _ valRel_eq) h
  refine ⟨parts, h1, fun k => ?_⟩
  have := h2 k
  rw [List.append_nil] at this
  exact this

/-! ### C07_config_independent, C07_total -/

theorem okOr_no_trap {α : Type} {r : Except Sorter.SErr α} {Q : α → Prop} (h : OkOr r Q)
    (hnt : ∀ t, r ≠ .error (.trap t)) : ∃ a, r = .ok a ∧ Q a := by
  cases r with
  | ok a => exact ⟨a, rfl, h⟩
  | error e =>
    cases e with
    | trap t => exact absurd rfl (hnt t)
    | merge => exact h.elim

/-- **C07_config_independent.**  Two sorter configurations — any budgets, reallocation policies,
    chunk limits, initial sizes — for which `Sorter.new` succeeds and no `Entries` trap occurs,
    and a lawful merge function: `runAll` over the same inserts returns the same output (the
    grouped merge of the inserts), whatever each run spilled and merged on the way. -/
theorem C07_config_independent (mf' : Bytes → List Bytes → Bytes) (law : MergeLaw mf')
    (cfg₁ cfg₂ : SCfg) (s₁ s₂ : Sorter) (h₁ : Sorter.new cfg₁ = .ok s₁)
    (h₂ : Sorter.new cfg₂ = .ok s₂) (kvs : List Entry)
    (nt₁ : ∀ t, runAll (tot mf') s₁ kvs ≠ .error (.trap t))
    (nt₂ : ∀ t, runAll (tot mf') s₂ kvs ≠ .error (.trap t)) :
    ∃ out t₁ t₂, runAll (tot mf') s₁ kvs = .ok (out, t₁) ∧
      runAll (tot mf') s₂ kvs = .ok (out, t₂) ∧
      out = (Spec.group kvs).map (fun (k, vs) => (k, mf' k vs)) := by
  obtain ⟨⟨o1, t1⟩, e1, q1⟩ := okOr_no_trap (C07_stable mf' law cfg₁ s₁ h₁ kvs) nt₁
  obtain ⟨⟨o2, t2⟩, e2, q2⟩ := okOr_no_trap (C07_stable mf' law cfg₂ s₂ h₂ kvs) nt₂
  simp only at q1 q2
  subst q1
  exact ⟨_, t1, t2, e1, by rw [e2, q2], rfl⟩

/-- Hypothesis form: two runs that returned `.ok` returned the same output. -/
theorem C07_config_independent_ok (mf' : Bytes → List Bytes → Bytes) (law : MergeLaw mf')
    (cfg₁ cfg₂ : SCfg) (s₁ s₂ : Sorter) (h₁ : Sorter.new cfg₁ = .ok s₁)
    (h₂ : Sorter.new cfg₂ = .ok s₂) (kvs : List Entry) (o₁ o₂ : List Entry) (t₁ t₂ : Sorter)
    (r₁ : runAll (tot mf') s₁ kvs = .ok (o₁, t₁)) (r₂ : runAll (tot mf') s₂ kvs = .ok (o₂, t₂)) :
    o₁ = o₂ := by
  rw [C07_stable_ok mf' law cfg₁ s₁ h₁ kvs o₁ t₁ r₁, C07_stable_ok mf' law cfg₂ s₂ h₂ kvs o₂ t₂ r₂]

/-- **`C17_no_trap`, restated for `runAll`** (any merge function): under the hypotheses of
    `C17_no_trap` no call of the run traps; the only possible error is `SErr.merge`. -/
theorem C07_no_trap (mf : MergeFn) (cfg : SCfg) (s0 : Sorter) (hnew : Sorter.new cfg = .ok s0)
    (kvs : List Entry)
    (hT : cfg.allowRealloc = true → cfg.budget ≤ 2 ^ 62 - 2 ^ 34)
    (hl : ∀ kv ∈ kvs, kv.1.length ≤ u32Max ∧ kv.2.length ≤ u32Max) (t : Trap) :
    runAll mf s0 kvs ≠ .error (.trap t) := by
  rw [runAll_eq_runAllI]
  exact runAllI_no_trap mf hnew kvs hT hl t

/-- With a merge function that never fails a run returns `.ok` (no law needed): the
    hypothesis `hrun` of `C17_total` is discharged by `Wave3.run_isSome_of_total`. -/
theorem C07_returns_ok (mf : MergeFn) (hmf : ∀ k vs, (mf k vs).isSome) (cfg : SCfg)
    (kvs : List Entry) (h0 : 0 < Sorter.cap0 cfg) (h1 : Sorter.cap0 cfg + 15 < 2 ^ 63)
    (hT : cfg.allowRealloc = true → cfg.budget ≤ 2 ^ 62 - 2 ^ 34)
    (hl : ∀ kv ∈ kvs, kv.1.length ≤ u32Max ∧ kv.2.length ≤ u32Max) :
    ∃ s0 r, Sorter.new cfg = .ok s0 ∧ runAll mf s0 kvs = .ok r := by
  obtain ⟨s0, hnew⟩ := Sorter.new_no_trap h0 h1
  obtain ⟨s', hp⟩ := Sorter.program_total mf cfg kvs true hmf (run_isSome_of_total hmf) h0 h1 hT hl
  have : ∃ r, runAll mf s0 kvs = .ok r := by
    rw [C07_runAll_eq_program mf cfg s0 hnew, hp]
    simp only
    have := run_isSome_of_total hmf s'.chunks
    cases hr : Merger.run mf s'.chunks with
    | mk o m =>
      rw [hr] at this
      cases o with
      | none => cases this
      | some out => exact ⟨_, rfl⟩
  obtain ⟨r, hr⟩ := this
  exact ⟨s0, r, hnew, hr⟩

/-- **C07_total.**  Under the hypotheses of `C17_no_trap` / `C17_total` (first capacity non-zero
    and below `2^63 - 15`; keys and values at most `u32::MAX` bytes; if reallocation is allowed,
    budget at most `2^62 - 2^34`) and a total lawful merge function, the `OkOr` disjunction of
    `C07_stable` collapses to its `.ok` case: `Sorter.new` succeeds and `runAll` returns `.ok`
    with the grouped merge of the inserts. -/
theorem C07_total (mf' : Bytes → List Bytes → Bytes) (law : MergeLaw mf') (cfg : SCfg)
    (kvs : List Entry) (h0 : 0 < Sorter.cap0 cfg) (h1 : Sorter.cap0 cfg + 15 < 2 ^ 63)
    (hT : cfg.allowRealloc = true → cfg.budget ≤ 2 ^ 62 - 2 ^ 34)
    (hl : ∀ kv ∈ kvs, kv.1.length ≤ u32Max ∧ kv.2.length ≤ u32Max) :
    ∃ s0 out sfin, Sorter.new cfg = .ok s0 ∧ runAll (tot mf') s0 kvs = .ok (out, sfin) ∧
      out = (Spec.group kvs).map (fun (k, vs) => (k, mf' k vs)) := by
  obtain ⟨s0, hnew⟩ := Sorter.new_no_trap h0 h1
  obtain ⟨⟨out, sfin⟩, e, q⟩ := okOr_no_trap (C07_stable mf' law cfg s0 hnew kvs)
    (C07_no_trap (tot mf') cfg s0 hnew kvs hT hl)
  exact ⟨s0, out, sfin, hnew, e, q⟩

/-- `C07_config_independent` with the traps excluded by the hypotheses of `C17_no_trap` on both
    configurations. -/
theorem C07_config_independent_total (mf' : Bytes → List Bytes → Bytes) (law : MergeLaw mf')
    (cfg₁ cfg₂ : SCfg) (kvs : List Entry)
    (h0₁ : 0 < Sorter.cap0 cfg₁) (h1₁ : Sorter.cap0 cfg₁ + 15 < 2 ^ 63)
    (hT₁ : cfg₁.allowRealloc = true → cfg₁.budget ≤ 2 ^ 62 - 2 ^ 34)
    (h0₂ : 0 < Sorter.cap0 cfg₂) (h1₂ : Sorter.cap0 cfg₂ + 15 < 2 ^ 63)
    (hT₂ : cfg₂.allowRealloc = true → cfg₂.budget ≤ 2 ^ 62 - 2 ^ 34)
    (hl : ∀ kv ∈ kvs, kv.1.length ≤ u32Max ∧ kv.2.length ≤ u32Max) :
    ∃ s₁ s₂ out t₁ t₂, Sorter.new cfg₁ = .ok s₁ ∧ Sorter.new cfg₂ = .ok s₂ ∧
      runAll (tot mf') s₁ kvs = .ok (out, t₁) ∧ runAll (tot mf') s₂ kvs = .ok (out, t₂) := by
  obtain ⟨s₁, o₁, t₁, n₁, r₁, q₁⟩ := C07_total mf' law cfg₁ kvs h0₁ h1₁ hT₁ hl
  obtain ⟨s₂, o₂, t₂, n₂, r₂, q₂⟩ := C07_total mf' law cfg₂ kvs h0₂ h1₂ hT₂ hl
  exact ⟨s₁, s₂, o₁, t₁, t₂, n₁, n₂, r₁, by rw [q₁, ← q₂]; exact r₂⟩

/-! ### Concrete instances (wave 3) -/

/-- A second configuration: a growing buffer (32 → 128 bytes, budget 100), up to 5 chunks.  On
    `exKvs` it never spills before `finish`, whereas `exCfg` spills three times and merges once. -/
def exCfg2 : SCfg :=
  { threshold := 100, minMemory := 100, initialSize := 32, allowRealloc := true, maxChunks := 5 }

#guard (Sorter.program (tot exConcat) exCfg2 exKvs true).toOption.map (fun s => s.chunks.length)
  = some 1
#guard (Sorter.program (tot exConcat) exCfg exKvs true).toOption.map (fun s => s.chunks)
  = some [[([1], [10, 11]), ([2], [20, 21, 22]), ([3], [30])], [([1], [12])]]

/-- The hypotheses of `C07_total` hold for `exCfg`, `exCfg2` and `exKvs`. -/
theorem exHyps : 0 < Sorter.cap0 exCfg ∧ Sorter.cap0 exCfg + 15 < 2 ^ 63 ∧
    (exCfg.allowRealloc = true → exCfg.budget ≤ 2 ^ 62 - 2 ^ 34) ∧
    0 < Sorter.cap0 exCfg2 ∧ Sorter.cap0 exCfg2 + 15 < 2 ^ 63 ∧
    (exCfg2.allowRealloc = true → exCfg2.budget ≤ 2 ^ 62 - 2 ^ 34) ∧
    ∀ kv ∈ exKvs, kv.1.length ≤ u32Max ∧ kv.2.length ≤ u32Max := by decide

/-- `C07_total` on the instance: the run returns `.ok`, with the grouped merge. -/
theorem exTotal : ∃ out sfin, runAll (tot exConcat) exS0 exKvs = .ok (out, sfin) ∧
    out = [([1], [10, 11, 12]), ([2], [20, 21, 22]), ([3], [30])] := by
  obtain ⟨s0, out, sfin, h1, h2, h3⟩ := C07_total exConcat exConcat_law exCfg exKvs
    exHyps.1 exHyps.2.1 exHyps.2.2.1 exHyps.2.2.2.2.2.2
  rw [exNew] at h1
  cases h1
  exact ⟨out, sfin, h2, by rw [h3]; decide⟩

/-- An admissible writer configuration: no compression, 28-byte blocks, two index levels,
    interval 2 (the one of the C01 instance). -/
def exWCfg : WCfg := { blockSize := 0, minBlock := 28, interval := 2, levels := 2 }

theorem exAdm : Admissible Codec.none exWCfg := ⟨fun _ => rfl, by decide, by decide, by decide⟩

/-- `C07_exits` on the instance: the three exits give `[1 ↦ 10 11 12, 2 ↦ 20 21 22, 3 ↦ 30]`. -/
example : ∃ out sfin, runAll (tot exConcat) exS0 exKvs = .ok (out, sfin) ∧
    out = [([1], [10, 11, 12]), ([2], [20, 21, 22]), ([3], [30])] ∧
    (∃ s, Inserted (tot exConcat) exCfg exKvs s ∧
      Sorter.finish (tot exConcat) s = .ok (out, sfin)) ∧
    (∃ s', Handed (tot exConcat) exCfg exKvs s' ∧
      (Merger.run (tot exConcat) s'.chunks).1 = some out) ∧
    RoundTrips Codec.none exWCfg out := by
  obtain ⟨out, sfin, hrun, hout⟩ := exTotal
  obtain ⟨ha, ⟨s', hh, hr, -, -⟩, -, hc⟩ := C07_exits exConcat exCfg exS0 exNew exKvs out sfin hrun
  refine ⟨out, sfin, hrun, hout, ha, ⟨s', hh, hr⟩, hc _ _ exAdm ?_⟩
  rw [hout]
  exact ⟨by decide, by decide⟩

/-- `C07_out_sizes` on the instance. -/
example : ∃ out sfin, runAll (tot exConcat) exS0 exKvs = .ok (out, sfin) ∧ SizesOk out := by
  obtain ⟨out, sfin, hrun, hout⟩ := exTotal
  exact ⟨out, sfin, hrun, C07_out_sizes exConcat exCfg exS0 exNew exKvs out sfin hrun
    (by decide) (by rw [hout]; decide) (by decide)⟩

/-- A key-sorted input (so that the kernel can evaluate the run: the stable sort is the
    identity), seven pairs on four keys; with `exCfg` it spills twice, merges the two chunks,
    and the final spill adds a second chunk. -/
def exSorted : List Entry :=
  [([1], [10]), ([1], [11]), ([2], [20]), ([2], [21]), ([3], [30]), ([3], [31]), ([4], [40])]

/-- The chunks handed out for `exSorted`. -/
theorem exHanded : ∃ s', Handed (tot exConcat) exCfg exSorted s' ∧
    s'.chunks = [[([1], [10, 11]), ([2], [20, 21]), ([3], [30, 31])], [([4], [40])]] := by
  have e := Sorter.program_eq_programW (tot exConcat) exCfg exSorted true
    (by unfold Sorter.KeySorted; decide +kernel)
  have v : (Sorter.programW (tot exConcat) exCfg exSorted true).toOption.map (·.chunks) =
      some [[([1], [10, 11]), ([2], [20, 21]), ([3], [30, 31])], [([4], [40])]] := by
    decide +kernel
  rw [← e] at v
  cases h : Sorter.program (tot exConcat) exCfg exSorted true with
  | error err => rw [h] at v; simp [Except.toOption] at v
  | ok s' =>
    rw [h] at v
    simp only [Except.toOption, Option.map_some, Option.some.injEq] at v
    exact ⟨s', handed_iff_program.mpr h, v⟩

/-- `C07_chunk_files` on the instance: both handed-out chunks round-trip through a chunk file of
    configuration `exWCfg`. -/
example : ∃ s', Handed (tot exConcat) exCfg exSorted s' ∧ s'.chunks.length = 2 ∧
    ∀ c ∈ s'.chunks, StrictAsc c ∧ RoundTrips Codec.none exWCfg c := by
  obtain ⟨s', hh, hc⟩ := exHanded
  have hv : ∀ c ∈ [[(([1], [10, 11]) : Entry), ([2], [20, 21]), ([3], [30, 31])], [([4], [40])]],
      ∀ e ∈ c, e.2.length < 2 ^ 32 := by decide
  refine ⟨s', hh, by rw [hc]; rfl, fun c hcm => ?_⟩
  obtain ⟨h1, -, h3⟩ := C07_chunk_files exConcat exCfg exSorted s' hh (by decide) (by decide) c hcm
  exact ⟨h1, h3 (hv c (hc ▸ hcm)) _ _ exAdm⟩

/-- `C07_chunks_asc` on the instance: the state reached by the seven inserts of `exSorted` (before
    `finishChunks`) is a `Reach` state holding one merged chunk. -/
example : ∃ s sp mg, Sorter.Reach (tot exConcat) exCfg (fun _ _ => True) s sp mg ∧
    s.chunks = [[([1], [10, 11]), ([2], [20, 21]), ([3], [30, 31])]] ∧
    ∀ c ∈ s.chunks, StrictAsc c := by
  have e := Sorter.program_eq_programW (tot exConcat) exCfg exSorted false
    (by unfold Sorter.KeySorted; decide +kernel)
  have v : (Sorter.programW (tot exConcat) exCfg exSorted false).toOption.map (·.chunks) =
      some [[([1], [10, 11]), ([2], [20, 21]), ([3], [30, 31])]] := by
    decide +kernel
  rw [← e] at v
  cases h : Sorter.program (tot exConcat) exCfg exSorted false with
  | error err => rw [h] at v; simp [Except.toOption] at v
  | ok s =>
    rw [h] at v
    simp only [Except.toOption, Option.map_some, Option.some.injEq] at v
    obtain ⟨sp, mg, r⟩ := inserted_reach (P := fun _ _ => True) (inserted_iff_program.mpr h)
      (fun _ _ => trivial)
    exact ⟨s, sp, mg, r, v, C07_chunks_asc _ r⟩

/-- `C07_config_independent` on the instance: `exCfg` (three spills, one chunk merge) and
    `exCfg2` (no spill before `finish`) return the same output. -/
example : ∃ s₁ s₂ out t₁ t₂, Sorter.new exCfg = .ok s₁ ∧ Sorter.new exCfg2 = .ok s₂ ∧
    runAll (tot exConcat) s₁ exKvs = .ok (out, t₁) ∧ runAll (tot exConcat) s₂ exKvs = .ok (out, t₂) :=
  C07_config_independent_total exConcat exConcat_law exCfg exCfg2 exKvs
    exHyps.1 exHyps.2.1 exHyps.2.2.1 exHyps.2.2.2.1 exHyps.2.2.2.2.1 exHyps.2.2.2.2.2.1
    exHyps.2.2.2.2.2.2

/-- `C07_no_trap` with a failing merge function: the run does not trap (it reports the merge
    error). -/
example (t : Trap) : runAll (fun k vs => if k = [2] then none else some vs.flatten) exS0 exKvs ≠
    .error (.trap t) :=
  C07_no_trap _ exCfg exS0 exNew exKvs exHyps.2.2.1 exHyps.2.2.2.2.2.2 t

end Grenad.Props.C07

section AxiomsWave3
open Grenad.Props.C07
#print axioms C07_runAll_eq_program
#print axioms C07_finish_is_merge_of_chunks
#print axioms C07_finish_state
#print axioms C07_finish_err
#print axioms C07_exits
#print axioms C07_out_sizes
#print axioms C07_chunks_asc
#print axioms C07_chunk_shape
#print axioms C07_chunk_files
#print axioms C07_chunk_files_live
#print axioms C07_chunk_files_any
#print axioms C07_chunks_are_parts
#print axioms C07_config_independent
#print axioms C07_config_independent_ok
#print axioms C07_config_independent_total
#print axioms C07_no_trap
#print axioms C07_returns_ok
#print axioms C07_total
#print axioms exTotal
#print axioms exHanded
end AxiomsWave3
