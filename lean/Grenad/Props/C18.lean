/-
  C18 — A writer never emits an unsorted block: for ARBITRARY insert sequences (unsorted,
  duplicates) and every configuration, `W.run` either traps (`keyOrder` / `keyTooLong` /
  `valTooLong`) or every block in its log holds strictly ascending keys and its bytes are the
  `BW.finish` of a block writer holding exactly those entries.

  Important limitation (true of the Rust code, see `C18_unsorted_input_accepted`): the order
  assertion lives in the *block* writer, whose last key is forgotten when a block is emitted.  An
  out-of-order key that happens to be the first key of a new block is therefore accepted as long as
  the last key of that block is above the last key of the previous block: every emitted block is
  sorted, the file as a whole is not.
-/
import Grenad.Proofs.WriterInv
import Grenad.Model.Abstract

namespace Grenad.Props.C18

open Grenad

/-- `e` is what a block writer holding exactly `e.items` emits: some block writer state `bw`,
    reachable from the empty writer by successful inserts, has `items = e.items`, its buffer is the
    concatenation of the frames of those entries, and `e.raw` is its `finish`. -/
def BlockOf (iv : Nat) (e : Emitted) : Prop :=
  ∃ bw : BW, BW.Reach iv bw ∧ bw.items = e.items ∧
    bw.buffer = (e.items.map frameOf).flatten ∧ e.raw = bw.finish

theorem strictAsc_iff_keys (kvs : List Entry) : StrictAsc kvs ↔ Asc (kvs.map Prod.fst) := by
  unfold StrictAsc Asc
  rw [List.pairwise_map]

/-- Core lemma: `BW.insert` either traps or extends `items` by one entry, keeping the keys strictly
    ascending and `lastKey` equal to the key of the last item. -/
theorem BW_insert_core (iv : Nat) (p : BW) (k v : Bytes) (hp : BW.Reach iv p) :
    StrictAsc p.items ∧ p.lastKey = p.items.getLast?.map (·.1) ∧
    ((∃ t, p.insert k v = .error t ∧
        ((t = .keyTooLong ∧ u32Max < k.length) ∨ (t = .valTooLong ∧ u32Max < v.length) ∨
         (t = .keyOrder ∧ ∃ lk, p.lastKey = some lk ∧ ¬ lk < k))) ∨
     (∃ w, p.insert k v = .ok w ∧ BW.Reach iv w ∧ w.items = p.items ++ [(k, v)] ∧
        StrictAsc w.items ∧ w.lastKey = w.items.getLast?.map (·.1) ∧
        w.buffer = p.buffer ++ BW.frame k v)) := by
  refine ⟨hp.keysAsc, hp.lastKey_eq, ?_⟩
  cases h : p.insert k v with
  | error t =>
    refine .inl ⟨t, rfl, ?_⟩
    rcases BW.insert_error h with h | h | ⟨ht, _, _, h⟩
    · exact .inl h
    · exact .inr (.inl h)
    · exact .inr (.inr ⟨ht, h⟩)
  | ok w =>
    have hw := BW.Reach.step hp h
    exact .inr ⟨w, rfl, hw, (BW.insert_ok h).2.2.2.2.2.1, hw.keysAsc, hw.lastKey_eq,
      (BW.insert_ok h).2.2.2.1⟩

/-- `BW.reset` gives the empty state. -/
theorem BW_reset_core (iv : Nat) (p : BW) (hp : BW.Reach iv p) :
    p.reset = BW.new iv ∧ p.reset.items = [] ∧ p.reset.lastKey = none ∧ p.reset.buffer = [] :=
  ⟨hp.reset_eq, rfl, rfl, rfl⟩

/-- **C18.** For every codec, configuration and input sequence, the run traps — with `keyTooLong`
    only if some key is longer than `u32::MAX`, `valTooLong` only if some value is, `keyOrder` only
    if the input keys are not strictly ascending — or it succeeds and every emitted block is sorted
    and is the image of a block writer holding exactly its entries. -/
theorem C18_sorted_or_trap (cd : Codec) (cfg : WCfg) (kvs : List Entry) :
    (∃ t, W.run cd cfg kvs = .error t ∧
      ((t = .keyTooLong ∧ ∃ e ∈ kvs, u32Max < e.1.length) ∨
       (t = .valTooLong ∧ ∃ e ∈ kvs, u32Max < e.2.length) ∨
       (t = .keyOrder ∧ ¬ StrictAsc kvs))) ∨
    (∃ file log, W.run cd cfg kvs = .ok (file, log) ∧
      ∀ e ∈ log, StrictAsc e.items ∧ BlockOf cfg.interval e) := by
  have hspec := W.run_spec cd cfg kvs
  cases hr : W.run cd cfg kvs with
  | error t =>
    refine .inl ⟨t, rfl, ?_⟩
    rcases hspec.2 t hr with h | h | ⟨ht, hna⟩
    · exact .inl h
    · exact .inr (.inl h)
    · exact .inr (.inr ⟨ht, fun h => hna ((strictAsc_iff_keys kvs).mp h)⟩)
  | ok r =>
    obtain ⟨file, log⟩ := r
    refine .inr ⟨file, log, rfl, ?_⟩
    obtain ⟨w, tl, _, _, _, _, hlog, hcut, hfin, _⟩ := hspec.1 file log hr
    intro e he
    have hem : EmOK cfg.interval cfg.clamped (cfg.levels + 1) e := by
      rw [hlog] at he
      rcases List.mem_append.mp he with he | he
      · exact (hcut e he).1
      · exact hfin e he
    obtain ⟨bw, hbw, hit, hraw, _⟩ := hem
    refine ⟨?_, bw, hbw, hit.symm, ?_, hraw⟩
    · show KeysAsc e.items
      rw [hit]; exact hbw.keysAsc
    · rw [hit]; exact hbw.buffer_eq

/-- Only the three block-writer assertions can trap a run. -/
theorem C18_traps (cd : Codec) (cfg : WCfg) (kvs : List Entry) (t : Trap)
    (h : W.run cd cfg kvs = .error t) : t = .keyOrder ∨ t = .keyTooLong ∨ t = .valTooLong := by
  rcases (W.run_spec cd cfg kvs).2 t h with h | h | h
  · exact .inr (.inl h.1)
  · exact .inr (.inr h.1)
  · exact .inl h.1

/-- **Trap point (data inserts).** If all inserts of `pre` succeed and the next key is not above
    the last key of the pending data block, the run traps with `keyOrder` (whatever follows). -/
theorem C18_trap_point (cd : Codec) (cfg : WCfg) (pre post : List Entry) (k v lk : Bytes) (w : W)
    (hpre : W.run.go cd (W.new cfg) pre = .ok w)
    (hlk : w.bw.lastKey = some lk) (hn : ¬ lk < k)
    (hk : k.length ≤ u32Max) (hv : v.length ≤ u32Max) :
    W.run cd cfg (pre ++ (k, v) :: post) = .error .keyOrder := by
  unfold W.run
  rw [W.go_append, hpre]
  simp only [W.run.go, W.insert_keyOrder cd w hk hv hlk hn]

/-- **Trap point (general).** A `keyOrder` trap is raised by the first failing insert: either some
    `Writer::insert` traps after all earlier ones succeeded, or all succeed and `into_inner` traps.
    In both cases the keys held by the pending block writers at that moment (index writers root
    first, then the data block; they are a subsequence of the keys inserted so far) followed by
    the new key are not strictly ascending — i.e. the trapping `BW.insert` (into the data block
    or into an index block) received a key not above that writer's last key. -/
theorem C18_trap_first (cd : Codec) (cfg : WCfg) (kvs : List Entry)
    (h : W.run cd cfg kvs = .error .keyOrder) :
    (∃ pre k v post w, kvs = pre ++ (k, v) :: post ∧ W.run.go cd (W.new cfg) pre = .ok w ∧
        W.insert cd w k v = .error .keyOrder ∧
        (W.keys w).Sublist (pre.map Prod.fst) ∧ ¬ Asc (W.keys w ++ [k])) ∨
    (∃ w, W.run.go cd (W.new cfg) kvs = .ok w ∧ W.finish cd w = .error .keyOrder ∧
        (W.keys w).Sublist (kvs.map Prod.fst) ∧ ¬ Asc (W.keys w)) := by
  unfold W.run at h
  cases hg : W.run.go cd (W.new cfg) kvs with
  | error t =>
    rw [hg] at h
    injection h with h
    subst h
    obtain ⟨pre, k, v, post, w, hsplit, hgo, hins⟩ := W.go_error_split cd kvs _ _ hg
    have hpre := (W.go_spec cd pre (W.new cfg) (W.inv_new cfg)).1 w hgo
    obtain ⟨_, hI, _, _, hsub, _⟩ := hpre
    rw [W.keys_new, List.nil_append] at hsub
    refine .inl ⟨pre, k, v, post, w, hsplit, hgo, hins, hsub, ?_⟩
    rcases (W.insert_spec cd w k v hI).2 _ hins with ⟨ht, _⟩ | ⟨ht, _⟩ | ⟨_, _, _, hna⟩
    · cases ht
    · cases ht
    · exact hna
  | ok w =>
    rw [hg] at h
    obtain ⟨_, hI, _, _, hsub, _⟩ := (W.go_spec cd kvs (W.new cfg) (W.inv_new cfg)).1 w hg
    rw [W.keys_new, List.nil_append] at hsub
    exact .inr ⟨w, rfl, h, hsub, ((W.finish_spec cd w hI).2 _ h).2⟩

/-- **Sorted input never traps.** With strictly ascending keys and all lengths within `u32::MAX`
    the run succeeds — for every codec and every configuration (no bound on `cfg.levels` is needed
    after the repair of F2: the model computes `(len - 1) % 256`).  The index keys are last keys of
    successive blocks, so they ascend as well. -/
theorem C18_sorted_input_ok (cd : Codec) (cfg : WCfg) (kvs : List Entry)
    (hs : StrictAsc kvs) (hlen : ∀ e ∈ kvs, e.1.length ≤ u32Max ∧ e.2.length ≤ u32Max) :
    ∃ r, W.run cd cfg kvs = .ok r := by
  cases hr : W.run cd cfg kvs with
  | ok r => exact ⟨r, rfl⟩
  | error t =>
    exfalso
    rcases (W.run_spec cd cfg kvs).2 t hr with ⟨_, e, he, hl⟩ | ⟨_, e, he, hl⟩ | ⟨_, hna⟩
    · have := (hlen e he).1; omega
    · have := (hlen e he).2; omega
    · exact hna ((strictAsc_iff_keys kvs).mp hs)

/-- With strictly ascending keys the only possible traps are the two length assertions. -/
theorem C18_sorted_input_no_keyOrder (cd : Codec) (cfg : WCfg) (kvs : List Entry)
    (hs : StrictAsc kvs) : W.run cd cfg kvs ≠ .error .keyOrder := by
  intro hr
  rcases (W.run_spec cd cfg kvs).2 _ hr with ⟨ht, _⟩ | ⟨ht, _⟩ | ⟨_, hna⟩
  · cases ht
  · cases ht
  · exact hna ((strictAsc_iff_keys kvs).mp hs)

/-! ### Concrete instances -/

def key (n : Nat) : Bytes := [UInt8.ofNat (n / 256), UInt8.ofNat (n % 256)]
def kvs (n : Nat) : List Entry := (List.range n).map (fun i => (key i, [UInt8.ofNat i, 7, 7, 7]))
def cfg : WCfg := { blockSize := 0, minBlock := 32, interval := 2, levels := 3 }

/-- (level, number of items, raw length) of every emitted block. -/
def summ (r : Except Trap (Bytes × List Emitted)) : Except Trap (List (Nat × Nat × Nat)) :=
  match r with
  | .ok (_, log) => .ok (log.map (fun e => (e.level, e.items.length, e.raw.length)))
  | .error t => .error t

/-- A sorted run with 32-byte blocks and 3 index levels: 15 blocks on five levels. -/
example : summ (W.run Codec.none cfg (kvs 20)) =
    .ok [(0, 3, 44), (0, 3, 44), (1, 2, 36), (0, 3, 44), (0, 3, 44), (1, 2, 36), (2, 2, 36),
         (0, 3, 44), (0, 3, 44), (1, 2, 36), (0, 2, 28), (1, 1, 24), (2, 2, 36), (3, 2, 36),
         (4, 1, 24)] := by rfl

example : StrictAsc (kvs 20) := by unfold StrictAsc; decide

/-- Instance of `C18_sorted_input_ok`. -/
example : ∃ r, W.run Codec.none cfg (kvs 20) = .ok r :=
  C18_sorted_input_ok _ _ _ (by unfold StrictAsc; decide) (by decide)

/-- An unsorted run that traps: the out-of-order key goes into a non-empty data block. -/
example : summ (W.run Codec.none cfg (kvs 2 ++ [(key 1, [])])) = .error .keyOrder := by rfl

/-- A duplicate key traps as well. -/
example : summ (W.run Codec.none cfg [(key 1, []), (key 1, [])]) = .error .keyOrder := by rfl

/-- Instance of `C18_trap_point`: after `kvs 2` the pending block's last key is `key 1`. -/
example : W.run Codec.none cfg (kvs 2 ++ (key 1, []) :: kvs 5) = .error .keyOrder := by
  have h : ∃ w, W.run.go Codec.none (W.new cfg) (kvs 2) = .ok w ∧ w.bw.lastKey = some (key 1) :=
    ⟨_, rfl, rfl⟩
  obtain ⟨w, hw, hl⟩ := h
  exact C18_trap_point Codec.none cfg (kvs 2) (kvs 5) (key 1) [] (key 1) w hw hl (by decide)
    (by decide) (by decide)

/-- **Finding.**  An unsorted input that is *accepted*: `kvs 3` fills and emits the first data
    block (keys 0,1,2), the block writer is reset, so key 1 — although below key 2 — starts the next
    block unchecked; key 5 closes it, and the index entry 5 is above the index entry 2.  Every
    block is sorted, the file (0,1,2,1,5) is not.  So `keyOrder ↔ ¬ StrictAsc kvs` is false; only
    `→` holds (`C18_sorted_or_trap`).
    Reproduced on the Rust crate (/repo, `block_size(1024)`, 400-byte values): inserting
    "a","b","c" (block emitted), then "b","z" returns `Ok`, and a reader cursor yields
    a,b,c,b,z; whereas "b","a" inside one block panics in block_writer.rs:109. -/
theorem C18_unsorted_input_accepted :
    ¬ StrictAsc (kvs 3 ++ [(key 1, []), (key 5, [])]) ∧
    summ (W.run Codec.none cfg (kvs 3 ++ [(key 1, []), (key 5, [])])) =
      .ok [(0, 3, 44), (0, 2, 20), (1, 2, 36), (2, 1, 24), (3, 1, 24), (4, 1, 24)] := by
  refine ⟨?_, by rfl⟩
  unfold StrictAsc
  decide

end Grenad.Props.C18
