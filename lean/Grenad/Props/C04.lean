/-
  C04 — Range iteration yields exactly the entries whose key lies in the range, in ascending
  order (`RangeIter`) or descending order (`RevRangeIter`), for every pair of bounds (inverted
  and empty ranges included).

  Layer: the iterator algorithms of `Grenad.Model.Iter`, run over a cursor that refines the
  specification cursor `Spec.step es` (that the byte-level cursor does so is C02/C03).
  * `C04_range`, `C04_range_rev`: over `Spec.stepTotal es`, from position `fresh`.
  * `C04_range_refines`, `C04_range_rev_refines`: over ANY cursor `step'` related to the
    specification cursor by a simulation `Sim es step' R` (results agree wherever `Spec.step`
    determines them; nothing assumed where it does not), from any position.  No side condition is
    needed: the range iterators never issue a call whose result the specification leaves open
    (they stop at the first `None`).
-/
import Grenad.Proofs.IterMain

namespace Grenad.Props.C04

open Grenad Grenad.IterP

/-- C04, forward. -/
theorem C04_range (es : List Entry) (hasc : StrictAsc es) (lo hi : Bound) (fuel : Nat)
    (hfuel : fuel > es.length) :
    collect (RangeIter.next (Spec.stepTotal es)) fuel
        { cursor := .fresh, lo := lo, hi := hi } [] =
      some (Spec.range es lo hi) :=
  range_collect (sim_stepTotal es) hasc .fresh .fresh rfl lo hi fuel hfuel

/-- C04, backward. -/
theorem C04_range_rev (es : List Entry) (hasc : StrictAsc es) (lo hi : Bound) (fuel : Nat)
    (hfuel : fuel > es.length) :
    collect (RangeIter.nextRev (Spec.stepTotal es)) fuel
        { cursor := .fresh, lo := lo, hi := hi } [] =
      some (Spec.range es lo hi).reverse :=
  range_collect_rev (sim_stepTotal es) hasc .fresh .fresh rfl lo hi fuel hfuel

/-- C04, forward, over any cursor that simulates the specification cursor, from any position
    (`pos0` need not be `fresh`: a freshly built range iterator re-seeks). -/
theorem C04_range_refines {γ : Type} (es : List Entry) (hasc : StrictAsc es)
    (step' : γ → Op → γ × Res) (R : γ → Spec.Pos → Prop) (hsim : Sim es step' R)
    (c0 : γ) (pos0 : Spec.Pos) (hR : R c0 pos0) (lo hi : Bound) (fuel : Nat)
    (hfuel : fuel > es.length) :
    collect (RangeIter.next step') fuel { cursor := c0, lo := lo, hi := hi } [] =
      some (Spec.range es lo hi) :=
  range_collect hsim hasc c0 pos0 hR lo hi fuel hfuel

/-- C04, backward, over any cursor that simulates the specification cursor, from any position. -/
theorem C04_range_rev_refines {γ : Type} (es : List Entry) (hasc : StrictAsc es)
    (step' : γ → Op → γ × Res) (R : γ → Spec.Pos → Prop) (hsim : Sim es step' R)
    (c0 : γ) (pos0 : Spec.Pos) (hR : R c0 pos0) (lo hi : Bound) (fuel : Nat)
    (hfuel : fuel > es.length) :
    collect (RangeIter.nextRev step') fuel { cursor := c0, lo := lo, hi := hi } [] =
      some (Spec.range es lo hi).reverse :=
  range_collect_rev hsim hasc c0 pos0 hR lo hi fuel hfuel

/-- The simple form of the refinement hypothesis (same state space, `R := Eq`): `step'` moves to
    the same position as `Spec.step` and returns its result whenever that is specified. -/
theorem sim_of_agree (es : List Entry) (step' : Spec.Pos → Op → Spec.Pos × Res)
    (h : ∀ pos op, (step' pos op).1 = (Spec.step es pos op).1 ∧
      match (Spec.step es pos op).2 with
      | some r => (step' pos op).2 = .ok r
      | none => True) :
    Sim es step' Eq := by
  intro c pos op hc
  subst hc
  refine ⟨(h c op).1, ?_⟩
  have := (h c op).2
  cases hs : (Spec.step es c op).2 with
  | none => trivial
  | some r => rw [hs] at this; exact this

/-! ### Concrete instances -/

/-- Four entries, strictly ascending. -/
def es4 : List Entry :=
  [([1], [10]), ([2, 0], [20]), ([2, 7], [30]), ([9], [40])]

theorem es4_asc : StrictAsc es4 := by unfold StrictAsc es4; decide

-- excluded lower bound present in the list (one extra `next`), included upper bound
example :
    collect (RangeIter.next (Spec.stepTotal es4)) 5
        { cursor := .fresh, lo := .excluded [2, 0], hi := .included [9] } [] =
      some [([2, 7], [30]), ([9], [40])] := by decide

example :
    collect (RangeIter.next (Spec.stepTotal es4)) 5
        { cursor := .fresh, lo := .excluded [2, 0], hi := .included [9] } [] =
      some (Spec.range es4 (.excluded [2, 0]) (.included [9])) :=
  C04_range es4 es4_asc _ _ 5 (by decide)

-- excluded upper bound present in the list (one extra `prev`), backward
example :
    collect (RangeIter.nextRev (Spec.stepTotal es4)) 5
        { cursor := .fresh, lo := .unbounded, hi := .excluded [2, 7] } [] =
      some [([2, 0], [20]), ([1], [10])] := by decide

example :
    collect (RangeIter.nextRev (Spec.stepTotal es4)) 5
        { cursor := .fresh, lo := .unbounded, hi := .excluded [2, 7] } [] =
      some (Spec.range es4 .unbounded (.excluded [2, 7])).reverse :=
  C04_range_rev es4 es4_asc _ _ 5 (by decide)

-- inverted range: empty in both directions
example :
    collect (RangeIter.next (Spec.stepTotal es4)) 5
        { cursor := .fresh, lo := .included [9], hi := .included [2] } [] = some [] := by decide

example :
    collect (RangeIter.nextRev (Spec.stepTotal es4)) 5
        { cursor := .fresh, lo := .included [9], hi := .included [2] } [] = some [] := by decide

example : Spec.range es4 (.included [9]) (.included [2]) = [] := by decide

-- degenerate range `(k, k)` on a present key
example :
    collect (RangeIter.next (Spec.stepTotal es4)) 5
        { cursor := .fresh, lo := .excluded [2, 0], hi := .excluded [2, 0] } [] = some [] := by
  decide

-- the generalised theorem is applicable: `Spec.stepTotal` is one simulating cursor
example : Sim es4 (Spec.stepTotal es4) Eq := sim_stepTotal es4

end Grenad.Props.C04
