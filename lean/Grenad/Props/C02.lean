/-
  C02 — Key searches: `ge q` returns the ceiling of `q`, `le q` the floor, `eq q` the entry with
  key `q`, from the initial state, after `reset`, and from any reachable state.
-/
import Grenad.Props.C03

namespace Grenad.Props.C02

open Grenad Grenad.TCursor

/-! ### What ceiling / floor / lookup are (L0, over the entry list only) -/

/-- No ceiling exactly when every key is smaller than `q`. -/
theorem ceiling_eq_none_iff (es : List Entry) (q : Bytes) :
    Spec.ceiling es q = none ↔ ∀ e ∈ es, e.1 < q := by
  unfold Spec.ceiling
  rw [List.find?_eq_none]
  constructor
  · intro h e he; have := h e he; simpa using bnot_le.1 (by simpa using this)
  · intro h e he; simpa using bnot_le.2 (h e he)

/-- The ceiling is the entry with the least key `≥ q`. -/
theorem ceiling_spec {es : List Entry} (hasc : StrictAsc es) {q : Bytes} {e : Entry}
    (h : Spec.ceiling es q = some e) :
    e ∈ es ∧ q ≤ e.1 ∧ ∀ e' ∈ es, q ≤ e'.1 → e.1 ≤ e'.1 := by
  unfold Spec.ceiling at h
  obtain ⟨hp, as, bs, rfl, has⟩ := List.find?_eq_some_iff_append.1 h
  have hq : q ≤ e.1 := by simpa using hp
  refine ⟨by simp, hq, ?_⟩
  intro e' he' hq'
  rcases List.mem_append.1 he' with h1 | h1
  · have := has e' h1; simp at this; exact absurd hq' (bnot_le.2 this)
  · rcases List.mem_cons.1 h1 with rfl | h2
    · exact ble_refl _
    · exact ble_of_lt ((strictAsc_cons.1 (StrictAsc.right hasc)).1 e' h2)

/-- No floor exactly when every key is larger than `q`. -/
theorem floor_eq_none_iff (es : List Entry) (q : Bytes) :
    Spec.floor es q = none ↔ ∀ e ∈ es, q < e.1 := by
  unfold Spec.floor
  rw [List.find?_eq_none]
  constructor
  · intro h e he; have := h e (List.mem_reverse.2 he); exact bnot_le.1 (by simpa using this)
  · intro h e he; simpa using bnot_le.2 (h e (List.mem_reverse.1 he))

/-- The floor is the entry with the greatest key `≤ q`. -/
theorem floor_spec {es : List Entry} (hasc : StrictAsc es) {q : Bytes} {e : Entry}
    (h : Spec.floor es q = some e) :
    e ∈ es ∧ e.1 ≤ q ∧ ∀ e' ∈ es, e'.1 ≤ q → e'.1 ≤ e.1 := by
  unfold Spec.floor at h
  obtain ⟨hp, as, bs, hrev, has⟩ := List.find?_eq_some_iff_append.1 h
  have hes : es = bs.reverse ++ e :: as.reverse := by
    have := congrArg List.reverse hrev
    simpa using this
  subst hes
  have hq : e.1 ≤ q := by simpa using hp
  refine ⟨by simp, hq, ?_⟩
  intro e' he' hq'
  rcases List.mem_append.1 he' with h1 | h1
  · exact ble_of_lt ((strictAsc_append.1 hasc).2.2 e' h1 e (by simp))
  · rcases List.mem_cons.1 h1 with rfl | h2
    · exact ble_refl _
    · have := has e' (List.mem_reverse.1 h2); simp at this; exact absurd hq' (bnot_le.2 this)

/-- No match exactly when no entry has key `q`. -/
theorem lookup_eq_none_iff (es : List Entry) (q : Bytes) :
    Spec.lookup es q = none ↔ ∀ e ∈ es, e.1 ≠ q := by
  unfold Spec.lookup
  rw [List.find?_eq_none]
  simp

/-- The match is the (unique) entry with key `q`. -/
theorem lookup_spec {es : List Entry} (hasc : StrictAsc es) {q : Bytes} {e : Entry}
    (h : Spec.lookup es q = some e) :
    e ∈ es ∧ e.1 = q ∧ ∀ e' ∈ es, e'.1 = q → e' = e := by
  unfold Spec.lookup at h
  have hmem : e ∈ es := List.mem_of_find?_eq_some h
  have hq : e.1 = q := by simpa using List.find?_some h
  exact ⟨hmem, hq, fun e' he' hq' => StrictAsc.key_inj hasc he' hmem (hq'.trans hq.symm)⟩

/-- The specification cursor's `ge` / `le` / `eq` results are ceiling / floor / lookup, from every
    position. -/
theorem spec_ge (es : List Entry) (p : Spec.Pos) (q : Bytes) :
    (Spec.step es p (.ge q)).2 = some (Spec.ceiling es q) := step_ge_res p q

theorem spec_le {es : List Entry} (hasc : StrictAsc es) (p : Spec.Pos) (q : Bytes) :
    (Spec.step es p (.le q)).2 = some (Spec.floor es q) := step_le_res hasc p q

theorem spec_eq {es : List Entry} (hasc : StrictAsc es) (p : Spec.Pos) (q : Bytes) :
    (Spec.step es p (.eq q)).2 = some (Spec.lookup es q) := step_eq_res hasc p q

/-! ### The repaired cursor's key searches, from any state satisfying the invariant -/

section
variable {s : Store} {root levels : Nat} {es : List Entry}

/-- **C02 (ge).** From any reachable state, `ge q` returns the ceiling of `q`. -/
theorem C02_ge_from (h : FileOK s root levels es) {c : RC LC} {p : Spec.Pos}
    (hinv : Inv s root levels es c p) (q : Bytes) :
    (RC.stepA s true c (.ge q)).2 = .ok (Spec.ceiling es q) := by
  have := (step_inv h hinv (.ge q)).1
  rwa [spec_ge] at this

/-- **C02 (le).** From any reachable state, `le q` returns the floor of `q`. -/
theorem C02_le_from (h : FileOK s root levels es) {c : RC LC} {p : Spec.Pos}
    (hinv : Inv s root levels es c p) (q : Bytes) :
    (RC.stepA s true c (.le q)).2 = .ok (Spec.floor es q) := by
  have := (step_inv h hinv (.le q)).1
  rwa [spec_le h.asc] at this

/-- **C02 (eq).** From any reachable state, `eq q` returns the entry with key `q`, if any. -/
theorem C02_eq_from (h : FileOK s root levels es) {c : RC LC} {p : Spec.Pos}
    (hinv : Inv s root levels es c p) (q : Bytes) :
    (RC.stepA s true c (.eq q)).2 = .ok (Spec.lookup es q) := by
  have := (step_inv h hinv (.eq q)).1
  rwa [spec_eq h.asc] at this

/-- From the initial state. -/
theorem C02_ge (h : FileOK s root levels es) (q : Bytes) :
    (RC.stepA s true (c0 root levels) (.ge q)).2 = .ok (Spec.ceiling es q) :=
  C02_ge_from h (Inv_c0 h) q

theorem C02_le (h : FileOK s root levels es) (q : Bytes) :
    (RC.stepA s true (c0 root levels) (.le q)).2 = .ok (Spec.floor es q) :=
  C02_le_from h (Inv_c0 h) q

theorem C02_eq (h : FileOK s root levels es) (q : Bytes) :
    (RC.stepA s true (c0 root levels) (.eq q)).2 = .ok (Spec.lookup es q) :=
  C02_eq_from h (Inv_c0 h) q

/-- After any history (which may include `reset`s and failed searches). -/
theorem C02_ge_after (h : FileOK s root levels es) (ops : List Op) (q : Bytes) :
    (RC.stepA s true (runState s es (c0 root levels) .fresh ops).1 (.ge q)).2
      = .ok (Spec.ceiling es q) :=
  C02_ge_from h (runState_inv h (Inv_c0 h) ops) q

theorem C02_le_after (h : FileOK s root levels es) (ops : List Op) (q : Bytes) :
    (RC.stepA s true (runState s es (c0 root levels) .fresh ops).1 (.le q)).2
      = .ok (Spec.floor es q) :=
  C02_le_from h (runState_inv h (Inv_c0 h) ops) q

theorem C02_eq_after (h : FileOK s root levels es) (ops : List Op) (q : Bytes) :
    (RC.stepA s true (runState s es (c0 root levels) .fresh ops).1 (.eq q)).2
      = .ok (Spec.lookup es q) :=
  C02_eq_from h (runState_inv h (Inv_c0 h) ops) q

/-- After `reset`, from any reachable state. -/
theorem C02_ge_reset (h : FileOK s root levels es) {c : RC LC} {p : Spec.Pos}
    (hinv : Inv s root levels es c p) (q : Bytes) :
    (RC.stepA s true (RC.stepA s true c .reset).1 (.ge q)).2 = .ok (Spec.ceiling es q) :=
  C02_ge_from h (step_inv h hinv .reset).2 q

theorem C02_le_reset (h : FileOK s root levels es) {c : RC LC} {p : Spec.Pos}
    (hinv : Inv s root levels es c p) (q : Bytes) :
    (RC.stepA s true (RC.stepA s true c .reset).1 (.le q)).2 = .ok (Spec.floor es q) :=
  C02_le_from h (step_inv h hinv .reset).2 q

theorem C02_eq_reset (h : FileOK s root levels es) {c : RC LC} {p : Spec.Pos}
    (hinv : Inv s root levels es c p) (q : Bytes) :
    (RC.stepA s true (RC.stepA s true c .reset).1 (.eq q)).2 = .ok (Spec.lookup es q) :=
  C02_eq_from h (step_inv h hinv .reset).2 q

end

/-! ### The hypotheses are satisfiable -/

example (ops : List Op) (q : Bytes) :
    (RC.stepA C03.witnessStore true (runState C03.witnessStore C03.witnessEntries (c0 300 2) .fresh ops).1 (.ge q)).2
      = .ok (Spec.ceiling C03.witnessEntries q) :=
  C02_ge_after C03.witness_fileOK ops q

example (q : Bytes) :
    (RC.stepA C03.witnessStore true (c0 300 2) (.le q)).2 = .ok (Spec.floor C03.witnessEntries q) :=
  C02_le C03.witness_fileOK q

example (levels : Nat) (q : Bytes) :
    (RC.stepA C03.emptyStore true (c0 0 levels) (.eq q)).2 = .ok (Spec.lookup [] q) :=
  C02_eq (C03.empty_fileOK levels) q

example : StrictAsc C03.witnessEntries := C03.witness_fileOK.asc

end Grenad.Props.C02
