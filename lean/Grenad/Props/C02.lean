/-
  C02 — Key searches: `ge q` returns the ceiling of `q`, `le q` the floor, `eq q` the entry with
  key `q`, from the initial state, after `reset`, and from any reachable state.
-/
import Grenad.Props.C03
import Grenad.Proofs.BinSearchBlock
import Grenad.Proofs.TBlock

namespace Grenad.Props.C02

open Grenad Grenad.TCursor

/-! ### What ceiling / floor / lookup are (L0, over the entry list only) -/

/-- No ceiling exactly when every key is smaller than `q`. -/
theorem ceiling_eq_none_iff (es : List Entry) (q : Bytes) :
    Spec.ceiling es q = none ↔ ∀ e ∈ es, e.1 < q := by
  unfold Spec.ceiling
  rw [List.find?_eq_none]
  constructor
  · intro h e he; have := h e he; simpa using bnot_le.1 (by simpa using this)
  · intro h e he; simpa using bnot_le.2 (h e he)

/-- The ceiling is the entry with the least key `≥ q`. -/
theorem ceiling_spec {es : List Entry} (hasc : StrictAsc es) {q : Bytes} {e : Entry}
    (h : Spec.ceiling es q = some e) :
    e ∈ es ∧ q ≤ e.1 ∧ ∀ e' ∈ es, q ≤ e'.1 → e.1 ≤ e'.1 := by
  unfold Spec.ceiling at h
  obtain ⟨hp, as, bs, rfl, has⟩ := List.find?_eq_some_iff_append.1 h
  have hq : q ≤ e.1 := by simpa using hp
  refine ⟨by simp, hq, ?_⟩
  intro e' he' hq'
  rcases List.mem_append.1 he' with h1 | h1
  · have := has e' h1; simp at this; exact absurd hq' (bnot_le.2 this)
  · rcases List.mem_cons.1 h1 with rfl | h2
    · exact ble_refl _
    · exact ble_of_lt ((strictAsc_cons.1 (StrictAsc.right hasc)).1 e' h2)

/-- No floor exactly when every key is larger than `q`. -/
theorem floor_eq_none_iff (es : List Entry) (q : Bytes) :
    Spec.floor es q = none ↔ ∀ e ∈ es, q < e.1 := by
  unfold Spec.floor
  rw [List.find?_eq_none]
  constructor
  · intro h e he; have := h e (List.mem_reverse.2 he); exact bnot_le.1 (by simpa using this)
  · intro h e he; simpa using bnot_le.2 (h e (List.mem_reverse.1 he))

/-- The floor is the entry with the greatest key `≤ q`. -/
theorem floor_spec {es : List Entry} (hasc : StrictAsc es) {q : Bytes} {e : Entry}
    (h : Spec.floor es q = some e) :
    e ∈ es ∧ e.1 ≤ q ∧ ∀ e' ∈ es, e'.1 ≤ q → e'.1 ≤ e.1 := by
  unfold Spec.floor at h
  obtain ⟨hp, as, bs, hrev, has⟩ := List.find?_eq_some_iff_append.1 h
  have hes : es = bs.reverse ++ e :: as.reverse := by
    have := congrArg List.reverse hrev
    simpa using this
  subst hes
  have hq : e.1 ≤ q := by simpa using hp
  refine ⟨by simp, hq, ?_⟩
  intro e' he' hq'
  rcases List.mem_append.1 he' with h1 | h1
  · exact ble_of_lt ((strictAsc_append.1 hasc).2.2 e' h1 e (by simp))
  · rcases List.mem_cons.1 h1 with rfl | h2
    · exact ble_refl _
    · have := has e' (List.mem_reverse.1 h2); simp at this; exact absurd hq' (bnot_le.2 this)

/-- No match exactly when no entry has key `q`. -/
theorem lookup_eq_none_iff (es : List Entry) (q : Bytes) :
    Spec.lookup es q = none ↔ ∀ e ∈ es, e.1 ≠ q := by
  unfold Spec.lookup
  rw [List.find?_eq_none]
  simp

/-- The match is the (unique) entry with key `q`. -/
theorem lookup_spec {es : List Entry} (hasc : StrictAsc es) {q : Bytes} {e : Entry}
    (h : Spec.lookup es q = some e) :
    e ∈ es ∧ e.1 = q ∧ ∀ e' ∈ es, e'.1 = q → e' = e := by
  unfold Spec.lookup at h
  have hmem : e ∈ es := List.mem_of_find?_eq_some h
  have hq : e.1 = q := by simpa using List.find?_some h
  exact ⟨hmem, hq, fun e' he' hq' => StrictAsc.key_inj hasc he' hmem (hq'.trans hq.symm)⟩

/-- The specification cursor's `ge` / `le` / `eq` results are ceiling / floor / lookup, from every
    position. -/
theorem spec_ge (es : List Entry) (p : Spec.Pos) (q : Bytes) :
    (Spec.step es p (.ge q)).2 = some (Spec.ceiling es q) := step_ge_res p q

theorem spec_le {es : List Entry} (hasc : StrictAsc es) (p : Spec.Pos) (q : Bytes) :
    (Spec.step es p (.le q)).2 = some (Spec.floor es q) := step_le_res hasc p q

theorem spec_eq {es : List Entry} (hasc : StrictAsc es) (p : Spec.Pos) (q : Bytes) :
    (Spec.step es p (.eq q)).2 = some (Spec.lookup es q) := step_eq_res hasc p q

/-! ### The repaired cursor's key searches, from any state satisfying the invariant -/

section
variable {s : Store} {root levels : Nat} {es : List Entry}

/-- **C02 (ge).** From any reachable state, `ge q` returns the ceiling of `q`. -/
theorem C02_ge_from (h : FileOK s root levels es) {c : RC LC} {p : Spec.Pos}
    (hinv : Inv s root levels es c p) (q : Bytes) :
    (RC.stepA s true c (.ge q)).2 = .ok (Spec.ceiling es q) := by
  have := (step_inv h hinv (.ge q)).1
  rwa [spec_ge] at this

/-- **C02 (le).** From any reachable state, `le q` returns the floor of `q`. -/
theorem C02_le_from (h : FileOK s root levels es) {c : RC LC} {p : Spec.Pos}
    (hinv : Inv s root levels es c p) (q : Bytes) :
    (RC.stepA s true c (.le q)).2 = .ok (Spec.floor es q) := by
  have := (step_inv h hinv (.le q)).1
  rwa [spec_le h.asc] at this

/-- **C02 (eq).** From any reachable state, `eq q` returns the entry with key `q`, if any. -/
theorem C02_eq_from (h : FileOK s root levels es) {c : RC LC} {p : Spec.Pos}
    (hinv : Inv s root levels es c p) (q : Bytes) :
    (RC.stepA s true c (.eq q)).2 = .ok (Spec.lookup es q) := by
  have := (step_inv h hinv (.eq q)).1
  rwa [spec_eq h.asc] at this

/-- From the initial state. -/
theorem C02_ge (h : FileOK s root levels es) (q : Bytes) :
    (RC.stepA s true (c0 root levels) (.ge q)).2 = .ok (Spec.ceiling es q) :=
  C02_ge_from h (Inv_c0 h) q

theorem C02_le (h : FileOK s root levels es) (q : Bytes) :
    (RC.stepA s true (c0 root levels) (.le q)).2 = .ok (Spec.floor es q) :=
  C02_le_from h (Inv_c0 h) q

theorem C02_eq (h : FileOK s root levels es) (q : Bytes) :
    (RC.stepA s true (c0 root levels) (.eq q)).2 = .ok (Spec.lookup es q) :=
  C02_eq_from h (Inv_c0 h) q

/-- After any history (which may include `reset`s and failed searches). -/
theorem C02_ge_after (h : FileOK s root levels es) (ops : List Op) (q : Bytes) :
    (RC.stepA s true (runState s es (c0 root levels) .fresh ops).1 (.ge q)).2
      = .ok (Spec.ceiling es q) :=
  C02_ge_from h (runState_inv h (Inv_c0 h) ops) q

theorem C02_le_after (h : FileOK s root levels es) (ops : List Op) (q : Bytes) :
    (RC.stepA s true (runState s es (c0 root levels) .fresh ops).1 (.le q)).2
      = .ok (Spec.floor es q) :=
  C02_le_from h (runState_inv h (Inv_c0 h) ops) q

theorem C02_eq_after (h : FileOK s root levels es) (ops : List Op) (q : Bytes) :
    (RC.stepA s true (runState s es (c0 root levels) .fresh ops).1 (.eq q)).2
      = .ok (Spec.lookup es q) :=
  C02_eq_from h (runState_inv h (Inv_c0 h) ops) q

/-- After `reset`, from any reachable state. -/
theorem C02_ge_reset (h : FileOK s root levels es) {c : RC LC} {p : Spec.Pos}
    (hinv : Inv s root levels es c p) (q : Bytes) :
    (RC.stepA s true (RC.stepA s true c .reset).1 (.ge q)).2 = .ok (Spec.ceiling es q) :=
  C02_ge_from h (step_inv h hinv .reset).2 q

theorem C02_le_reset (h : FileOK s root levels es) {c : RC LC} {p : Spec.Pos}
    (hinv : Inv s root levels es c p) (q : Bytes) :
    (RC.stepA s true (RC.stepA s true c .reset).1 (.le q)).2 = .ok (Spec.floor es q) :=
  C02_le_from h (step_inv h hinv .reset).2 q

theorem C02_eq_reset (h : FileOK s root levels es) {c : RC LC} {p : Spec.Pos}
    (hinv : Inv s root levels es c p) (q : Bytes) :
    (RC.stepA s true (RC.stepA s true c .reset).1 (.eq q)).2 = .ok (Spec.lookup es q) :=
  C02_eq_from h (step_inv h hinv .reset).2 q

end

/-! ### The hypotheses are satisfiable -/

example (ops : List Op) (q : Bytes) :
    (RC.stepA C03.witnessStore true (runState C03.witnessStore C03.witnessEntries (c0 300 2) .fresh ops).1 (.ge q)).2
      = .ok (Spec.ceiling C03.witnessEntries q) :=
  C02_ge_after C03.witness_fileOK ops q

example (q : Bytes) :
    (RC.stepA C03.witnessStore true (c0 300 2) (.le q)).2 = .ok (Spec.floor C03.witnessEntries q) :=
  C02_le C03.witness_fileOK q

example (levels : Nat) (q : Bytes) :
    (RC.stepA C03.emptyStore true (c0 0 levels) (.eq q)).2 = .ok (Spec.lookup [] q) :=
  C02_eq (C03.empty_fileOK levels) q

example : StrictAsc C03.witnessEntries := C03.witness_fileOK.asc

end Grenad.Props.C02

/-! ### The in-block searches are real binary searches (`Grenad.Model.BinSearch`)

`Grenad.Model.Block` defines the two searches inside a block by their specification
(`takeWhile`): `BlockCursor.searchOffsets` for `offsets.binary_search(&cur).unwrap_or_else(|x| x)`
in `move_on_prev`, and `BlockCursor.searchKey` for
`offsets.binary_search_by_key(&Some(key), |off| entry_at(off).key)` in
`move_on_key_lower_than_or_equal_to`.  `Grenad.Model.BinSearch` gives `slice::binary_search_by`
as the loop it is — `binSearchBy`: the `size`/`left`/`right` loop with early exit of Rust
1.52–1.81; `binSearchBy'`: the branch-free `base`/`size` loop of Rust ≥ 1.82.  On every strictly
ascending table both loops return what the specification says, so the searches of the model are
the searches of the crate.  Proofs: `Grenad/Proofs/BinSearchProofs.lean` (the contract of
`binary_search_by` for both loops), `Grenad/Proofs/BinSearchBlock.lean` (instantiation). -/

namespace Grenad.Props.C02

open Grenad

/-- **`searchOffsets` is a binary search.**  For every strictly ascending offset table and every
    `x`, the value `move_on_prev` extracts from `offsets.binary_search(&x)` with
    `unwrap_or_else(|x| x)` (index of the exact match, or insertion point) is the model's
    `searchOffsets offs x` — for the classic loop and for the branch-free loop. -/
theorem C02_searchOffsets_is_binary_search (offs : List Nat) (x : Nat)
    (h : offs.Pairwise (· < ·)) :
    BlockCursor.searchOffsets offs x =
      (match binSearchBy (fun o => compare o x) offs with | .ok i => i | .error i => i) ∧
    BlockCursor.searchOffsets offs x =
      (match binSearchBy' (fun o => compare o x) offs with | .ok i => i | .error i => i) :=
  BinSearch.searchOffsets_is_binSearch offs x h

/-- **`searchKey` is a binary search.**  On every block whose table keys ascend strictly
    (`None < Some _`, byte strings lexicographically) the `(found, index)` pair of the model's
    `searchKey b key` is the reading `Ok i ↦ (true, i)`, `Err i ↦ (false, i)` of
    `binary_search_by` with the comparison `|off| entry_at(off).key.cmp(&Some(key))` — for the
    classic loop and for the branch-free loop. -/
theorem C02_searchKey_is_binary_search (b : Block) (key : Bytes)
    (h : b.offsets.Pairwise (fun o₁ o₂ =>
      Option.lt (· < ·) ((b.entryAt o₁).map (fun (k, _, _) => k))
        ((b.entryAt o₂).map (fun (k, _, _) => k)))) :
    BlockCursor.searchKey b key =
      (match binSearchBy (fun off => compareOption cmpBytes
          ((b.entryAt off).map (fun (k, _, _) => k)) (some key)) b.offsets with
       | .ok i => (true, i) | .error i => (false, i)) ∧
    BlockCursor.searchKey b key =
      (match binSearchBy' (fun off => compareOption cmpBytes
          ((b.entryAt off).map (fun (k, _, _) => k)) (some key)) b.offsets with
       | .ok i => (true, i) | .error i => (false, i)) :=
  BinSearch.searchKey_is_binSearch b key h

/-- Both hypotheses hold of every block built by the block writer (`BlockOf`, T-block): its offset
    table and the keys the table designates ascend strictly. -/
theorem C02_built_tables_ascend {iv : Nat} {es : List Entry} {b : Block} (hb : BlockOf iv es b) :
    b.offsets.Pairwise (· < ·) ∧
    b.offsets.Pairwise (fun o₁ o₂ =>
      Option.lt (· < ·) ((b.entryAt o₁).map (fun (k, _, _) => k))
        ((b.entryAt o₂).map (fun (k, _, _) => k))) :=
  ⟨BinSearch.offsets_pairwise_of_blockOf hb, BinSearch.tableKeysAsc_of_blockOf hb⟩

/-- On writer-built blocks, for every cursor position and every key: the model's `prev` and `le`
    are `move_on_prev` and `move_on_key_lower_than_or_equal_to` with the search performed by the
    standard library's loop (`BinSearch.prevBS`, `BinSearch.leBS`; either loop). -/
theorem C02_prev_le_use_binary_search {iv : Nat} {es : List Entry} {b : Block}
    (hb : BlockOf iv es b) (o : Option Nat) (key : Bytes) :
    (BlockCursor.mk b o).prev = BinSearch.prevBS binSearchBy ⟨b, o⟩ ∧
    (BlockCursor.mk b o).prev = BinSearch.prevBS binSearchBy' ⟨b, o⟩ ∧
    (BlockCursor.mk b o).le key = BinSearch.leBS binSearchBy ⟨b, o⟩ key ∧
    (BlockCursor.mk b o).le key = BinSearch.leBS binSearchBy' ⟨b, o⟩ key := by
  obtain ⟨h1, h2⟩ := BinSearch.prev_eq_prevBS ⟨b, o⟩ (BinSearch.offsets_pairwise_of_blockOf hb)
  obtain ⟨h3, h4⟩ := BinSearch.le_eq_leBS ⟨b, o⟩ key (BinSearch.tableKeysAsc_of_blockOf hb)
  exact ⟨h1, h2, h3, h4⟩

/-! #### The contract of `binary_search_by` itself (any sorted list, duplicates allowed) -/

/-- On a list sorted w.r.t. `cmp` — `Less` on `[0, k)`, `Equal` on `[k, m)`, `Greater` after —
    both loops return `Err(k)` when nothing compares `Equal`, and `Ok(i)` with `i` in the `Equal`
    region otherwise. -/
theorem C02_binary_search_contract {α : Type} {cmp : α → Ordering} {l : List α} {k m : Nat}
    (h : BinSearch.SortedBy cmp l k m) :
    (k = m → binSearchBy cmp l = .error k ∧ binSearchBy' cmp l = .error k) ∧
    (k < m → (∃ i, binSearchBy cmp l = .ok i ∧ k ≤ i ∧ i < m) ∧
             (∃ i, binSearchBy' cmp l = .ok i ∧ k ≤ i ∧ i < m)) :=
  ⟨fun e => ⟨(BinSearch.binSearchBy_spec h).1 e, (BinSearch.binSearchBy'_spec h).1 e⟩,
   fun e => ⟨(BinSearch.binSearchBy_spec h).2 e, (BinSearch.binSearchBy'_spec h).2 e⟩⟩

/-! #### Concrete instances -/

example : [0, 3, 7, 12].Pairwise (· < ·) := by decide

/-- exact match, insertion point in the middle, before the first, after the last -/
example : (foundAt (binSearchBy (fun o => compare o 7) [0, 3, 7, 12]),
           foundAt (binSearchBy (fun o => compare o 8) [0, 3, 7, 12]),
           foundAt (binSearchBy (fun o => compare o 0) [0, 3, 7, 12]),
           foundAt (binSearchBy (fun o => compare o 99) [0, 3, 7, 12])) =
    ((true, 2), (false, 3), (true, 0), (false, 4)) := by decide

example : (foundAt (binSearchBy' (fun o => compare o 7) [0, 3, 7, 12]),
           foundAt (binSearchBy' (fun o => compare o 8) [0, 3, 7, 12]),
           foundAt (binSearchBy' (fun o => compare o 0) [0, 3, 7, 12]),
           foundAt (binSearchBy' (fun o => compare o 99) [0, 3, 7, 12])) =
    ((true, 2), (false, 3), (true, 0), (false, 4)) := by decide

example : BlockCursor.searchOffsets [0, 3, 7, 12] 8 = 3 := by decide

/-- with duplicates the two loops may pick different matches — both inside the `Equal` region, as
    the contract allows (the tables of a block have no duplicates) -/
example : (foundAt (binSearchBy (fun o => compare o 5) [1, 5, 5, 5, 9]),
           foundAt (binSearchBy' (fun o => compare o 5) [1, 5, 5, 5, 9])) = ((true, 2), (true, 3)) := by
  decide

example : BinSearch.SortedBy (fun o => compare o 5) [1, 5, 5, 5, 9] 1 4 := by
  refine ⟨by decide, by decide, ?_, ?_, ?_⟩ <;> intro i hi
  · intro h; have : i = 0 := by omega
    subst this; rfl
  · intro h1 h2
    have : i = 1 ∨ i = 2 ∨ i = 3 := by omega
    rcases this with rfl | rfl | rfl <;> rfl
  · intro h
    have : i = 4 := by simp at hi; omega
    subst this; rfl

/-- three entries, table interval 2: the block the writer builds satisfies `BlockOf`, hence the
    hypotheses of the two theorems -/
private def bsEs : List Entry := [([1], [10]), ([1, 2], []), ([3], [7, 8, 9])]

example : ∃ b, BlockOf 2 bsEs b ∧
    (∀ key, BlockCursor.searchKey b key =
      (match binSearchBy' (fun off => compareOption cmpBytes
          ((b.entryAt off).map (fun (k, _, _) => k)) (some key)) b.offsets with
       | .ok i => (true, i) | .error i => (false, i))) := by
  obtain ⟨w, b, _, _, _, _, _, hb⟩ := tblock_roundtrip (iv := 2) (es := bsEs) (by decide)
    (by simp [StrictAsc, bsEs]; decide) (by simp [bsEs]) (by decide)
  exact ⟨b, hb, fun key => (C02_searchKey_is_binary_search b key (C02_built_tables_ascend hb).2).2⟩

end Grenad.Props.C02

section AuditBinSearch
open Grenad.Props.C02
#print axioms C02_searchOffsets_is_binary_search
#print axioms C02_searchKey_is_binary_search
#print axioms C02_built_tables_ascend
#print axioms C02_prev_le_use_binary_search
#print axioms C02_binary_search_contract
end AuditBinSearch
