/-
  Grenad.All — every property module in ONE environment.

  Importing all of `Grenad/Props/*.lean` together shows that the independently written proof files
  declare no conflicting names, and the `#print axioms` lines below list, in one place, the axioms
  the headline theorem of each property rests on (expected: at most `propext`,
  `Classical.choice`, `Quot.sound`).  Nothing is stated or proved here.
-/
import Grenad.Props.C01
import Grenad.Props.C02
import Grenad.Props.C03
import Grenad.Props.C04
import Grenad.Props.C05
import Grenad.Props.C06
import Grenad.Props.C07
import Grenad.Props.C08
import Grenad.Props.C09
import Grenad.Props.C10
import Grenad.Props.C11
import Grenad.Props.C12
import Grenad.Props.C13
import Grenad.Props.C14
import Grenad.Props.C15
import Grenad.Props.C16
import Grenad.Props.C17
import Grenad.Props.C18
import Grenad.Props.C09Decoder

section HeadlineAxioms

#print axioms Grenad.Props.C01.C01_roundtrip
#print axioms Grenad.Props.C02.C02_ge
#print axioms Grenad.Props.C03.C03_history
#print axioms Grenad.Props.C04.C04_range
#print axioms Grenad.Props.C05.C05_prefix
#print axioms Grenad.Props.C06.C06_merge
#print axioms Grenad.Props.C07.C07_stable
#print axioms Grenad.Props.C08.C08_volume
#print axioms Grenad.Props.C09.C09_conforms
#print axioms Grenad.Props.C09.C09_spec_decoder_small  -- from `Grenad.Props.C09Decoder`
#print axioms Grenad.Props.C10.C10_open
#print axioms Grenad.Props.C11.C11_cursor_history
#print axioms Grenad.Props.C12.C12_cursor_never_wrong
#print axioms Grenad.Props.C13.C13_open_iff
#print axioms Grenad.Props.C14.C14_roundtrip
#print axioms Grenad.Props.C15.C15_cut
#print axioms Grenad.Props.C16.C16_loads_per_op
#print axioms Grenad.Props.C17.C17_no_trap
#print axioms Grenad.Props.C18.C18_sorted_or_trap

end HeadlineAxioms
